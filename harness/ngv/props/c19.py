"""C19 — All-in-one conversion equals the step-by-step pipeline and steps are repeatable."""
import hashlib
import importlib
import json
import os
import shutil
import subprocess
import sys
import tempfile

import numpy as np

from .. import core

RULE = ("synthetic NIfTI volumes (uint8/uint16/uint32/float32, sizes 20..150 per axis so that 1-3 scales "
        "arise, isotropic and anisotropic voxel sizes, few-label / smooth / random values) converted (A) by "
        "volume-to-precomputed-pyramid and (B) by the documented sequence volume-to-precomputed "
        "--generate-info; generate-scales-info; volume-to-precomputed; compute-scales with the same options "
        "(encoding raw / compressed_segmentation / jpeg, type, downscaling method auto/average/majority/stride, "
        "--outside-value, --flat, --no-gzip, --compresslevel, --input-min/max); infos compared as JSON values, every chunk of every scale "
        "decoded by a fresh accessor and compared between the two runs; then steps of B are repeated "
        "(volume-to-precomputed, compute-scales, both) and the decoded dataset compared again; convert-chunks "
        "--copy-info of B run twice; scale-stats must not modify the dataset; sharded variants of B (with "
        "--sharding) run as subprocesses; obstructed destinations (a file where a scale directory must go) "
        "must give a non-zero status; every command with status 0 must leave every chunk of every scale "
        "readable. In-process main() calls and real subprocesses are mixed. Trivial = single-scale result.")
ASSUMPTIONS = [
    "the all-in-one command has no --sharding / --target-chunk-size / --max-scales option: the sequence is run "
    "with the defaults it hard-codes",
    "jpeg is lossy: both programs must produce the same decoded values, not the source's",
]
SCRIPTS = "neuroglancer_scripts.scripts."


def run_cmd(name, argv, sub):
    """(status, note): status 0 = success; in-process exceptions are non-zero with the class as note"""
    if sub:
        r = subprocess.run([sys.executable, "-m", SCRIPTS + name] + argv, capture_output=True, text=True,
                           timeout=600, env=dict(os.environ, TQDM_DISABLE="1"))
        tail = r.stderr.strip().splitlines()[-1][:200] if r.stderr.strip() else ""
        return r.returncode, tail
    mod = importlib.import_module(SCRIPTS + name)
    try:
        rc = mod.main([name] + argv)
    except SystemExit as exc:
        rc = exc.code if isinstance(exc.code, int) else 1
    except Exception as exc:  # noqa
        return 1, f"{type(exc).__name__}: {exc}"[:200]
    return (rc or 0), ""


def gen_volume(rng, iso=False):
    import nibabel
    dt = rng.choice(["uint8", "uint8", "uint16", "uint32", "float32"])
    shape = [rng.choice([20, 33, 64, 65, 70, 100, 129, 150]) for _ in range(3)]
    if max(shape) <= 64 and rng.random() < 0.85:
        shape[rng.randrange(3)] = rng.choice([65, 70, 100, 129, 150])
    while np.prod(shape) > 600000:
        shape[shape.index(max(shape))] //= 2
    nrng = np.random.default_rng(rng.getrandbits(32))
    mode = rng.choice(["labels", "smooth", "random"])
    if mode == "labels":
        g = np.indices(shape).sum(axis=0) // rng.choice([7, 16, 40])
        a = (g % rng.choice([3, 5, 200])).astype(dt)
    elif mode == "smooth":
        g = np.indices(shape).astype("float64")
        a = (100 + 80 * np.sin(g[0] / 9.0) * np.cos(g[1] / 7.0) + g[2] / 4).astype(dt)
    else:
        a = nrng.integers(0, 250, size=shape).astype(dt)
    vox = rng.choice([[1, 1, 1], [1, 1, 1], [0.5, 0.5, 2.0], [1, 2, 4], [0.02, 0.02, 0.02]])
    if iso:      # the sharded accessor supports cubic chunks only (explicit ShardedIOError otherwise)
        vox = [vox[0]] * 3
    aff = np.diag(list(vox) + [1.0])
    img = nibabel.Nifti1Image(a, aff, dtype=a.dtype)
    return img, a, dt, vox, mode


def decoded(base, opts=None):
    """{scale key: {coords: array}} through a fresh accessor, plus the info; raises on unreadable chunks"""
    from neuroglancer_scripts import accessor, precomputed_io
    acc = accessor.get_accessor_for_url(base, opts or {})
    pio = precomputed_io.get_IO_for_existing_dataset(acc)
    out = {}
    for sc in pio.info["scales"]:
        d = {}
        for cs in sc["chunk_sizes"]:
            for x in range(0, sc["size"][0], cs[0]):
                for y in range(0, sc["size"][1], cs[1]):
                    for z in range(0, sc["size"][2], cs[2]):
                        c = (x, min(x + cs[0], sc["size"][0]), y, min(y + cs[1], sc["size"][1]),
                             z, min(z + cs[2], sc["size"][2]))
                        d[c] = pio.read_chunk(sc["key"], c)
        out[sc["key"]] = d
    return pio.info, out


def digest(dec):
    h = hashlib.sha256()
    for key in sorted(dec):
        for c in sorted(dec[key]):
            a = dec[key][c]
            h.update(repr((key, c, a.dtype.str, a.shape)).encode())
            h.update(np.ascontiguousarray(a).tobytes())
    return h.hexdigest()


def same(d1, d2):
    if sorted(d1) != sorted(d2):
        return "scale keys differ: %s vs %s" % (sorted(d1), sorted(d2))
    for k in d1:
        if sorted(d1[k]) != sorted(d2[k]):
            return f"chunk grids of scale {k} differ"
        for c in d1[k]:
            a, b = d1[k][c], d2[k][c]
            if a.shape != b.shape or a.dtype != b.dtype or not np.array_equal(a, b):
                return f"scale {k} chunk {list(c)}: {int(np.sum(a != b)) if a.shape == b.shape else 'shape'} voxels differ"
    return None


def tree_hash(base):
    h = hashlib.sha256()
    for root, dirs, files in sorted(os.walk(base)):
        dirs.sort()
        for f in sorted(files):
            p = os.path.join(root, f)
            h.update(os.path.relpath(p, base).encode())
            with open(p, "rb") as fh:
                h.update(fh.read())
    return h.hexdigest()


def run(ctx):
    import nibabel
    rng = ctx.rng
    reqs, meta = [], []
    for it in range(ctx.budget(14, 150)):
        tmp = tempfile.mkdtemp(prefix="ngv_c19_")
        try:
            img, a, dt, vox, mode = gen_volume(rng)
            while it < 5 and (max(a.shape) <= 64 or (it in (2, 3) and (dt == "float32" or len(set(vox)) > 1))):
                # the forced option interactions need several scales; two of them also feed the level-chain
                # correspondence (integer type, isotropic voxels), so that it is exercised on every run
                img, a, dt, vox, mode = gen_volume(rng, iso=it in (2, 3))
            vol = os.path.join(tmp, "vol.nii")
            nibabel.save(img, vol)
            enc = rng.choice([None, None, "raw", "compressed_segmentation", "compressed_segmentation"] +
                             (["jpeg"] if dt == "uint8" else []))
            ty = rng.choice([None, None, "image", "segmentation"])
            method = rng.choice(["average", "average", "majority", "stride", "auto"])
            outside = str(rng.choice([0, 7, 255])) if rng.random() < 0.45 else None
            # option interactions that every run must contain (then random combinations)
            forced = [dict(enc="compressed_segmentation"),                       # non-default encoding, several scales
                      dict(ty="segmentation", method="auto", enc=None),          # method resolved from --type
                      dict(ty="image", method="auto", enc=None),
                      dict(method="average", outside="7", enc=None, ty=None),    # --outside-value reaches the downscaler
                      dict(ty="segmentation", method=None, enc="compressed_segmentation")]  # default method = auto
            if it < len(forced):
                f = forced[it]
                enc = f.get("enc", enc)
                ty = f.get("ty", ty)
                method = f.get("method", method)
                outside = f.get("outside", outside)
            # every option the two programs share is drawn: downscaling (method, outside value), storage
            down = ["--downscaling-method", method] if method else []
            if outside is not None:
                down += ["--outside-value", outside]
            store = []
            if rng.random() < 0.5:
                store.append("--flat")
            if rng.random() < 0.5:
                store.append("--no-gzip")
            elif rng.random() < 0.3:
                store += ["--compresslevel", str(rng.choice([1, 6]))]
            inp = []
            if dt != "float32" and enc in (None, "raw") and rng.random() < 0.25:
                inp = ["--input-min", "0", "--input-max", str(rng.choice([100, 255, 1000]))]
            info_opts = (["--encoding", enc] if enc else []) + (["--type", ty] if ty else [])
            sub = rng.random() < 0.2
            desc = {"volume": {"dtype": dt, "shape": list(a.shape), "voxel_size": vox, "values": mode},
                    "encoding": enc, "type": ty, "downscaling": down, "storage": store, "input": inp,
                    "subprocess": sub}
            A, B = os.path.join(tmp, "A"), os.path.join(tmp, "B")
            os.makedirs(B)
            rcA, noteA = run_cmd("volume_to_precomputed_pyramid",
                                 [vol, A] + down + info_opts + store + inp, sub)
            seq = [("volume_to_precomputed", ["--generate-info", vol, B] + inp),
                   ("generate_scales_info", [os.path.join(B, "info_fullres.json"), B] + info_opts),
                   ("volume_to_precomputed", [vol, B] + store + inp),
                   ("compute_scales", [B] + down + store)]
            rcB, noteB, failed_step = 0, "", None
            for name, argv in seq:
                rcB, noteB = run_cmd(name, argv, sub)
                if rcB == 4 and "--generate-info" in argv:
                    # documented status: the info was written, the data type is a guess to be reviewed
                    ctx.bump("generate_info_status_4")
                    rcB = 0
                if rcB != 0:
                    failed_step = name
                    break
            ctx.hist("encoding", enc)
            ctx.hist("method", method or "(default)")
            ctx.hist("run_as", "subprocess" if sub else "in-process")
            if rcA != 0 or rcB != 0:
                ctx.hist("status", f"A={int(rcA != 0)} B={int(rcB != 0)}")
                ctx.case(("fail", json.dumps(desc, sort_keys=True, default=str)))
                if rcA != 0 and rcB != 0:
                    ctx.hist("both_fail", (noteA.split(":")[0] + " | " + noteB.split(":")[0])[:80] + f" enc={enc} dt={dt}")
                if (rcA != 0) != (rcB != 0):
                    ctx.oracle_fail("one of the two programs fails and the other succeeds on the same volume and "
                                    f"options (all-in-one: {rcA} {noteA}; sequence: {rcB} {noteB} at {failed_step})", desc)
                continue
            # ---- both succeeded: everything asked for is there, readable, and equal ----
            try:
                infoA, decA = decoded(A)
                infoB, decB = decoded(B)
            except Exception as exc:  # noqa
                ctx.oracle_fail(f"a command exited with status 0 but a chunk of its dataset is unreadable: "
                                f"{type(exc).__name__}: {exc}"[:300], desc)
                continue
            nscales = len(infoA["scales"])
            ctx.case((json.dumps(desc, sort_keys=True, default=str), a.tobytes()[:64]), nontrivial=nscales > 1,
                     sample=dict(desc, scales=[s["key"] for s in infoA["scales"]]) if rng.random() < 0.3 else None)
            ctx.hist("scales", nscales)
            if infoA != infoB:
                diff = [k for k in set(infoA) | set(infoB) if infoA.get(k) != infoB.get(k)]
                ctx.oracle_fail("the all-in-one command and the documented sequence produce different infos "
                                f"(fields {diff})", dict(desc, infoA=infoA, infoB=infoB))
                continue
            d = same(decA, decB)
            if d:
                ctx.oracle_fail("the all-in-one command and the documented sequence produce different voxels: " + d, desc)
                continue
            # model: encoding / type / data type of every scale
            s0 = infoB["scales"][0]
            with open(os.path.join(B, "info_fullres.json")) as f:
                fr = json.load(f)
            fs0 = fr["scales"][0]
            blk = fs0.get("compressed_segmentation_block_size")
            reqs.append("pipeline-info %d %s %s %s %s %s %s" % (
                nscales, ty or "-", enc or "-", fr.get("type", "-"), fr["data_type"], fs0.get("encoding", "-"),
                core.ilist(blk) if blk else "-"))
            from neuroglancer_scripts import chunk_encoding as _ce

            def _codec(sc_):
                try:
                    return {"RawChunkEncoder": "raw", "CompressedSegmentationEncoder": "compressed_segmentation",
                            "JpegChunkEncoder": "jpeg"}.get(type(_ce.get_encoder(infoA, sc_)).__name__, "?")
                except _ce.InvalidInfoError:
                    return "InvalidInfoError"
            meta.append((desc, "%s %s %s | %s" % (infoA["type"], infoA["data_type"], " ".join(
                "%s:%s" % (s.get("encoding", "-"), ".".join(map(str, s["compressed_segmentation_block_size"]))
                           if "compressed_segmentation_block_size" in s else "-") for s in infoA["scales"]),
                " ".join(_codec(s) for s in infoA["scales"]))))
            # model: the documented sequence's info and the downscaling method each program resolves
            from neuroglancer_scripts import downscaling as _ds
            _names = {"AveragingDownscaler": "average", "MajorityDownscaler": "majority", "StridingDownscaler": "stride"}

            def _resolved(info_):
                try:
                    return _names.get(type(_ds.get_downscaler(method or "auto", info_, {})).__name__, "?")
                except Exception as exc:  # noqa
                    return type(exc).__name__
            reqs.append("pipeline-stepwise %d %s %s %s %s %s %s %s" % (
                nscales, ty or "-", enc or "-", fr.get("type", "-"), fr["data_type"], fs0.get("encoding", "-"),
                core.ilist(blk) if blk else "-", method or "auto"))
            meta.append((dict(desc, corr="pipeline-stepwise"), "%s %s %s | %s %s" % (
                infoB["type"], infoB["data_type"], " ".join(
                    "%s:%s" % (s.get("encoding", "-"), ".".join(map(str, s["compressed_segmentation_block_size"]))
                               if "compressed_segmentation_block_size" in s else "-") for s in infoB["scales"]),
                _resolved(infoB), _resolved(infoA))))
            # model: the levels are successive downscalings (Pipeline.computeScales over the model downscalers), from the
            # first level that is small enough to be sent to the driver; needs one channel, an integer type below 64
            # bits and isotropic halving of every axis between the levels compared
            sizes = [sc["size"] for sc in infoA["scales"]]
            res = [sc["resolution"] for sc in infoA["scales"]]
            L0 = next((i for i, sz in enumerate(sizes) if sz[0] * sz[1] * sz[2] <= 700000), None)
            meth = _resolved(infoA)
            facs = [[int(round(res[i + 1][a] / res[i][a])) for a in range(3)] for i in range(nscales - 1)]
            regular = all(f in (1, 2) for fl in facs for f in fl) and all(
                sizes[i + 1][a] == -(-sizes[i][a] // facs[i][a]) for i in range(nscales - 1) for a in range(3))
            why = ("no small level" if L0 is None else "single level" if L0 >= nscales - 1 else
                   "channels" if infoA["num_channels"] != 1 else "data type" if infoA["data_type"] not in ("uint8", "uint16", "uint32")
                   else "jpeg" if (enc or "raw") == "jpeg" else "method " + meth if meth not in ("average", "majority", "stride")
                   else "irregular sizes" if not regular else "compared")
            ctx.hist("level_chain", why)
            if why == "compared":
                def _assemble(i):
                    sc = infoA["scales"][i]
                    full = np.zeros((sc["size"][2], sc["size"][1], sc["size"][0]), dtype=np.int64)
                    for c, arr in decA[sc["key"]].items():
                        full[c[4]:c[5], c[2]:c[3], c[0]:c[1]] = arr[0]
                    return full
                lv = [_assemble(i) for i in range(L0, nscales)]
                z0 = sizes[L0]
                reqs.append("pipeline-levels %s %s %s %s %d %s %s" % (
                    meth, infoA["data_type"], core.ilist([z0[2], z0[1], z0[0]]),
                    outside if (outside is not None and meth == "average") else "none", len(lv),
                    "/".join("%d.%d.%d" % (f[2], f[1], f[0]) for f in facs[L0:]),
                    core.ilist(int(v) for v in lv[0].ravel())))
                meta.append((dict(desc, corr="pipeline-levels", from_level=L0, method=meth),
                             ";".join(core.ilist(int(v) for v in x.ravel()) for x in lv) + ";0"))
                ctx.bump("level_chains_compared")
            # ---- repetition of data-writing steps ----
            ref = digest(decB)
            rep = rng.choice([["volume_to_precomputed"], ["compute_scales"], ["volume_to_precomputed", "compute_scales"],
                              ["compute_scales", "compute_scales"]])
            for name in rep:
                argv = dict(seq[2:])[name]
                rc, note = run_cmd(name, argv, sub and rng.random() < 0.5)
                if rc != 0:
                    ctx.oracle_fail(f"repeating {name} on its own output fails: {rc} {note}", desc)
                    break
            else:
                try:
                    _, again = decoded(B)
                    if digest(again) != ref:
                        ctx.oracle_fail("repeating " + "+".join(rep) + " on its own output changes the decoded "
                                        "dataset: " + str(same(decB, again)), desc)
                except Exception as exc:  # noqa
                    ctx.oracle_fail(f"after repeating {rep} a chunk is unreadable: {type(exc).__name__}: {exc}"[:300], desc)
            ctx.hist("repeated", "+".join(rep))
            # scale-stats reads only
            th = tree_hash(B)
            rc, note = run_cmd("scale_stats", [B], False)
            if rc != 0:
                ctx.oracle_fail(f"scale-stats fails on a complete dataset: {rc} {note}", desc)
            if tree_hash(B) != th:
                ctx.oracle_fail("scale-stats modified the dataset", desc)
            # convert-chunks --copy-info twice (lossless encodings only)
            if (enc or "raw") != "jpeg" and rng.random() < 0.5:
                C = os.path.join(tmp, "C")
                rc, note = run_cmd("convert_chunks", [B, C, "--copy-info"] + store, False)
                if rc != 0:
                    ctx.oracle_fail(f"convert-chunks --copy-info of a complete dataset fails: {rc} {note}", desc)
                else:
                    _, d1 = decoded(C)
                    if same(decB, d1):
                        ctx.oracle_fail("convert-chunks --copy-info changes voxels: " + str(same(decB, d1)), desc)
                    # second run: the info exists now, so the documented way is without --copy-info
                    rc, note = run_cmd("convert_chunks", [B, C] + store, False)
                    if rc != 0:
                        ctx.oracle_fail(f"repeating convert-chunks on its own output fails: {rc} {note}", desc)
                    else:
                        _, d2 = decoded(C)
                        if same(d1, d2):
                            ctx.oracle_fail("repeating convert-chunks changes the decoded dataset", desc)
                ctx.bump("convert_chunks_twice")
        finally:
            shutil.rmtree(tmp, ignore_errors=True)
    sharded_and_obstructed(ctx)
    # downscaler selection (model: Pipeline.resolveMethod)
    from neuroglancer_scripts import downscaling
    names = {"AveragingDownscaler": "average", "MajorityDownscaler": "majority", "StridingDownscaler": "stride"}
    for method in ("auto", "average", "majority", "stride"):
        for ty in ("image", "segmentation"):
            try:
                got = names.get(type(downscaling.get_downscaler(method, {"type": ty}, {})).__name__, "?")
            except Exception as exc:  # noqa
                got = type(exc).__name__
            reqs.append(f"resolve-method {method} {ty}")
            meta.append(({"method": method, "info_type": ty}, got))
    if ctx.driver_ok and reqs:
        for rep, (desc, impl) in zip(core.driver_batch(reqs), meta):
            if rep != impl:
                ctx.corr_mismatch(desc.get("corr", "pipeline-info"), desc, impl[:300], rep[:300])


def sharded_and_obstructed(ctx):
    """the documented sharded sequence (subprocesses: the flush happens inside the command), and
    destinations where a scale directory cannot be created: status 0 <=> everything readable"""
    import nibabel
    rng = ctx.rng
    for it in range(ctx.budget(4, 30)):
        tmp = tempfile.mkdtemp(prefix="ngv_c19s_")
        try:
            img, a, dt, vox, mode = gen_volume(rng, iso=True)
            if dt == "float32":
                continue
            vol = os.path.join(tmp, "vol.nii")
            nibabel.save(img, vol)
            B = os.path.join(tmp, "B")
            os.makedirs(B)
            sharding = "%d,%d,%d" % (rng.randrange(0, 3), rng.randrange(0, 3), rng.randrange(0, 3)) \
                if (it % 2 == 0 or rng.random() < 0.6) else None
            obstruct = rng.random() < 0.5 if it > 0 else True
            sub = rng.random() < 0.7
            shard_opt = ["--sharding", sharding] if sharding else []
            desc = {"volume": {"dtype": dt, "shape": list(a.shape), "voxel_size": vox}, "sharding": sharding,
                    "obstructed": obstruct, "subprocess": sub}
            ok = True
            for name, argv in [("volume_to_precomputed", ["--generate-info", vol, B] + shard_opt),
                               ("generate_scales_info", [os.path.join(B, "info_fullres.json"), B])]:
                rc, note = run_cmd(name, argv, False)
                if rc not in (0, 4) or (rc == 4 and "--generate-info" not in argv):
                    ok = False
                    ctx.oracle_fail(f"{name} fails on a plain request: {rc} {note}", desc)
            if not ok:
                continue
            with open(os.path.join(B, "info")) as f:
                info = json.load(f)
            if obstruct:
                # a regular file sits where the directory of the first scale must be created
                with open(os.path.join(B, info["scales"][0]["key"]), "w") as f:
                    f.write("not a directory")
            rc, note = run_cmd("volume_to_precomputed", [vol, B] + shard_opt, sub)
            ctx.case(("sharded", json.dumps(desc, sort_keys=True)))
            ctx.hist("sharded_variant", f"sharding={'yes' if sharding else 'no'} obstructed={obstruct} rc={int(rc != 0)}")
            if obstruct:
                if rc == 0:
                    ctx.oracle_fail("volume-to-precomputed exits with status 0 although the chunks of the first scale "
                                    "cannot be written (its directory is obstructed by a file)", desc)
                continue
            if rc != 0:
                ctx.oracle_fail(f"volume-to-precomputed fails on a plain request: {rc} {note}", desc)
                continue
            rc, note = run_cmd("compute_scales", [B], sub)
            if rc != 0:
                ctx.oracle_fail(f"compute-scales fails after a successful conversion: {rc} {note}", desc)
                continue
            try:
                _, dec = decoded(B)
            except Exception as exc:  # noqa
                ctx.oracle_fail("all commands exited with status 0 but a chunk is unreadable: "
                                f"{type(exc).__name__}: {exc}"[:300], desc)
                continue
            # the full-resolution scale holds the volume itself
            k0 = info["scales"][0]["key"]
            for c, arr in dec[k0].items():
                want = a[c[0]:c[1], c[2]:c[3], c[4]:c[5]].transpose(2, 1, 0)[np.newaxis]
                if not np.array_equal(arr, want.astype(arr.dtype)):
                    ctx.oracle_fail("a chunk of the full-resolution scale differs from the volume", dict(desc, chunk=list(c)))
                    break
            # repeat both data-writing steps
            ref = digest(dec)
            for name, argv in [("volume_to_precomputed", [vol, B] + shard_opt), ("compute_scales", [B])]:
                rc, note = run_cmd(name, argv, sub)
                if rc != 0:
                    ctx.oracle_fail(f"repeating {name} on its own (sharded) output fails: {rc} {note}", desc)
                    break
            else:
                try:
                    _, again = decoded(B)
                    if digest(again) != ref:
                        ctx.oracle_fail("repeating the data-writing steps changes the decoded dataset: "
                                        + str(same(dec, again)), desc)
                except Exception as exc:  # noqa
                    ctx.oracle_fail(f"after repeating the steps a chunk is unreadable: {type(exc).__name__}: {exc}"[:300], desc)
        finally:
            shutil.rmtree(tmp, ignore_errors=True)


def replay(ctx, data):
    run(ctx)
