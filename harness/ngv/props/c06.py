"""C06 — Each pyramid level equals the whole previous level downscaled once."""
import copy
import json

import numpy as np

from .. import core
from .c03 import DictAccessor, valid_boxes

RULE = ("single transitions level i -> i+1 run in isolation through the real compute_dyadic_downscaling on a "
        "freshly written level i (so a transition is exercised even when an earlier one would raise): infos "
        "from the real generator (sizes 1..70, resolution ratios from {1,1.2,1.5,2,2.8,3,5,6,10,40}, target "
        "chunk sizes 1..32) and hand-made pairs with arbitrary chunk sizes 1..6 (compatible and not, powers of "
        "two and not), sizes k*chunk and k*chunk+1; all three downscalers (named, or selected as `auto` by the info's type), outside values, u8/u16/u32/f32, "
        "1-3 channels; np.empty poisoned with two patterns; the new level is read back and compared with the "
        "selected method's class, built directly from the options, applied to the whole previous level as one array; outcome (ok / error class) compared "
        "with the per-axis Lean plan; thorough tier: additionally ALL (old size 1..10, factor 1/2, old chunk 1..5, "
        "new chunk 1..6) on each axis. Trivial = no axis is downscaled or single-chunk levels.")
ASSUMPTIONS = [
    "the downscalers are block-local and correct on a whole array (C07); the chunk I/O layer is a map (C03)",
    "any exception counts as 'fails with an error' (ValueError, ZeroDivisionError, AssertionError)",
]


class NPShim:
    """numpy with a poisoned `empty`, installed as `dyadic_pyramid.np`"""

    def __init__(self, fill):
        self._fill = fill

    def empty(self, shape, dtype=float, **kw):
        a = np.empty(shape, dtype=dtype, **kw)
        a.view(np.uint8).reshape(-1)[...] = self._fill
        return a

    def __getattr__(self, name):
        return getattr(np, name)


def assemble(io, scale, dtype, C):
    size = scale["size"]
    vol = np.zeros((C, size[2], size[1], size[0]), dtype=dtype)
    got = np.zeros(vol.shape, dtype=bool)
    cs = scale["chunk_sizes"][0]
    for b in valid_boxes({"size": size, "chunk_sizes": [cs]}):
        ch = io.read_chunk(scale["key"], b)
        vol[:, b[4]:b[5], b[2]:b[3], b[0]:b[1]] = ch
        got[:, b[4]:b[5], b[2]:b[3], b[0]:b[1]] = True
    return vol, got


def gen_transition(rng):
    """(info with two scales, description) — from the real generator or hand-made."""
    from neuroglancer_scripts import dyadic_pyramid
    dt = rng.choice(["uint8", "uint16", "uint32", "float32"])
    C = rng.choice([1, 1, 2, 3])
    if rng.random() < 0.55:
        size = [rng.choice([1, 2, 3, 5, 8, 9, 16, 17, 33, rng.randrange(1, 71)]) for _ in range(3)]
        base = rng.choice([1.0, 10.0, 40.0, 0.7])
        res = [base * rng.choice([1, 1, 1.2, 1.5, 2, 2.8, 3, 5, 6, 10, 40]) for _ in range(3)]
        target = rng.choice([1, 2, 4, 8, 16, 32])
        info = {"type": "image", "data_type": dt, "num_channels": C,
                "scales": [{"encoding": "raw", "size": size, "resolution": res, "voxel_offset": [0, 0, 0]}]}
        try:
            dyadic_pyramid.fill_scales_for_dyadic_pyramid(info, target_chunk_size=target)
        except Exception:  # noqa  (C08's business)
            return None
        if len(info["scales"]) < 2:
            return None
        i = rng.randrange(len(info["scales"]) - 1)
        two = copy.deepcopy(info)
        two["scales"] = [info["scales"][i], info["scales"][i + 1]]
        return two, "generated"
    # hand-made
    f = [rng.choice([1, 2, 2]) for _ in range(3)]
    oc = [rng.choice([1, 2, 3, 4, 6, 8]) for _ in range(3)]
    style = rng.choice(["compatible", "compatible", "any"])
    nc = []
    for a in range(3):
        if style == "compatible" and oc[a] % f[a] == 0:
            nc.append(rng.choice([oc[a] // f[a], 2 * (oc[a] // f[a])]))
        else:
            nc.append(rng.choice([1, 2, 3, 4, 6, 8]))
    osz = [rng.choice([oc[a] * rng.randrange(1, 4), oc[a] * rng.randrange(1, 4) + 1, rng.randrange(1, 20)]) for a in range(3)]
    nsz = [-(-osz[a] // f[a]) for a in range(3)]
    if rng.random() < 0.05:
        nsz[rng.randrange(3)] += 1   # unsupported factor
    mk = lambda key, size, cs: {"key": key, "encoding": "raw", "size": size, "resolution": [1, 1, 1],
                                "voxel_offset": [0, 0, 0], "chunk_sizes": [cs]}
    info = {"type": "image", "data_type": dt, "num_channels": C,
            "scales": [mk("old", osz, oc), mk("new", nsz, nc)]}
    return info, "handmade-" + style


def exhaustive_axis_cases(rng):
    """thorough tier: ALL (old size 1..10, factor 1/2, old chunk 1..5, new chunk 1..6) on one axis, the two
    other axes fixed to a small compatible pair - the finite neighbourhood of the per-axis theorems"""
    mk = lambda key, size, cs: {"key": key, "encoding": "raw", "size": size, "resolution": [1, 1, 1],
                                "voxel_offset": [0, 0, 0], "chunk_sizes": [cs]}
    for axis in range(3):
        for osz in range(1, 11):
            for f in (1, 2):
                for oc in range(1, 6):
                    for nc in range(1, 7):
                        o_size, n_size, o_cs, n_cs = [3, 3, 3], [2, 2, 2], [2, 2, 2], [1, 1, 1]
                        o_size[axis], n_size[axis] = osz, -(-osz // f)
                        o_cs[axis], n_cs[axis] = oc, nc
                        info = {"type": "image", "data_type": rng.choice(["uint8", "uint16"]), "num_channels": 1,
                                "scales": [mk("old", o_size, o_cs), mk("new", n_size, n_cs)]}
                        yield info, "exhaustive-axis"


def run(ctx):
    from neuroglancer_scripts import downscaling, dyadic_pyramid, precomputed_io
    rng = ctx.rng
    reqs, meta = [], []
    n_done = 0
    queue = list(exhaustive_axis_cases(rng)) if (ctx.tier == "thorough" and not ctx.search_mode) else []
    # always present: more than 65535 distinct labels in ONE chunk and several chunks (an over-segmentation in chunks
    # of 48^3): results of label bookkeeping in narrow types differ between a chunk and the whole array
    mk = lambda key, size, cs: {"key": key, "encoding": "raw", "size": size, "resolution": [1, 1, 1],  # noqa
                                "voxel_offset": [0, 0, 0], "chunk_sizes": [cs]}
    if not ctx.search_mode:
        queue.append(({"type": "segmentation", "data_type": "uint32", "num_channels": 1,
                       "scales": [mk("old", [96, 48, 48], [48, 48, 48]), mk("new", [48, 24, 24], [24, 24, 24])]},
                      "many-labels"))
    ds_pool = {}
    budget = ctx.budget(90, 2500) + len(queue)
    attempts = 0
    while n_done < budget and attempts < 10 * budget:
        attempts += 1
        g = queue.pop() if queue else gen_transition(rng)
        if g is None:
            continue
        info, origin = g
        n_done += 1
        dt, C = info["data_type"], info["num_channels"]
        old, new = info["scales"]
        method = rng.choice(["average", "average", "majority", "stride"])
        opts = {}
        if method == "average" and rng.random() < 0.4:
            opts = {"outside_value": rng.choice([0.0, 1.0, 200.0])}
        if method == "majority" and dt == "float32":
            method = "stride"
        if origin == "many-labels":
            method, opts = "majority", {}
        spelled = "auto" if method in ("average", "stride") and rng.random() < 0.5 else method
        # a downscaler object is a value: most of the time the object built for an earlier pyramid (of whatever data
        # type and size) with the same method and options is used again, as a library caller converting several
        # datasets in one process does; the reference object below is always fresh
        pool_key = (spelled, method, json.dumps(opts, sort_keys=True))
        if pool_key in ds_pool and rng.random() < 0.7:
            ds, history = ds_pool[pool_key]
        else:
            if spelled == "auto":   # the command-line default: resolved by the info's type, same options
                ds = downscaling.get_downscaler("auto", {"type": "image" if method == "average" else "segmentation"},
                                                opts)
            else:
                ds = downscaling.get_downscaler(method, info=None, options=opts)
            history = []
            ds_pool[pool_key] = (ds, history)
        earlier_types = sorted(set(history))
        history.append(dt)
        nr = np.random.default_rng(rng.getrandbits(32))
        shape = (C, old["size"][2], old["size"][1], old["size"][0])
        if origin == "many-labels":
            vol = nr.permutation(int(np.prod(shape))).astype(dt).reshape(shape)
        elif dt == "float32":
            vol = nr.integers(0, 1000, size=shape).astype("float32")
        else:
            vol = nr.integers(0, min(int(np.iinfo(dt).max), 2**31), size=shape).astype(dt) \
                if method != "majority" else nr.integers(0, 4, size=shape).astype(dt)
        desc = {"origin": origin, "data_type": dt, "channels": C, "method": method, "method_spelling": spelled, "options": opts,
                "downscaler_object_used_before_for": earlier_types,
                "old": {k: old[k] for k in ("size", "chunk_sizes")}, "new": {k: new[k] for k in ("size", "chunk_sizes")}}
        outcomes = []
        for fill in (0xAB, 0x54):
            acc = DictAccessor()
            io = precomputed_io.PrecomputedIO(info, acc)
            for b in valid_boxes(old):
                io.write_chunk(vol[:, b[4]:b[5], b[2]:b[3], b[0]:b[1]], old["key"], b)
            saved = dyadic_pyramid.np
            dyadic_pyramid.np = NPShim(fill)
            try:
                with np.errstate(all="ignore"):
                    dyadic_pyramid.compute_dyadic_downscaling(info, 0, ds, io, io)
                try:
                    lvl, got = assemble(io, new, dt, C)
                    outcomes.append(("ok", lvl, got))
                except Exception as exc:  # noqa
                    outcomes.append(("ok-unreadable", type(exc).__name__, None))
            except Exception as exc:  # noqa
                outcomes.append(("err", type(exc).__name__, None))
            finally:
                dyadic_pyramid.np = saved
        ctx.case((json.dumps(desc, sort_keys=True), vol.tobytes()[:64]),
                 nontrivial=old["size"] != new["size"] and len(valid_boxes(new)) + len(valid_boxes(old)) > 2,
                 sample=dict(desc, outcome=outcomes[0][0]) if rng.random() < 0.02 else None)
        ctx.hist("origin", origin)
        ctx.hist("outcome", outcomes[0][0] if outcomes[0][0] != "err" else "err:" + outcomes[0][1])
        ctx.hist("method", method)
        o0 = outcomes[0]
        if o0[0] == "ok-unreadable":
            ctx.oracle_fail("the pyramid step returned normally but a chunk of the new level cannot be read "
                            f"({o0[1]}): voxels left unwritten", desc)
        elif o0[0] == "ok":
            factors = [1 if a == b else 2 for a, b in zip(old["size"], new["size"])]
            try:
                with np.errstate(all="ignore"):
                    # the selected method applied to the whole level: an object of the method's class built directly
                    # from the options (not the one the selection code under test handed to the pyramid step)
                    ref_ds = {"average": lambda: downscaling.AveragingDownscaler(opts.get("outside_value")),
                              "majority": downscaling.MajorityDownscaler,
                              "stride": downscaling.StridingDownscaler}[method]()
                    want = ref_ds.downscale(vol, factors)
            except Exception as exc:  # noqa
                want = None
            if want is None or want.shape != o0[1].shape:
                ctx.oracle_fail("the pyramid step returned normally for a pair of scales that the downscaler "
                                "cannot relate (shape of the global downscale differs)", desc)
            else:
                same = np.array_equal(o0[1].view(np.uint8), want.astype(o0[1].dtype).view(np.uint8))
                if not same or not o0[2].all():
                    bad = int(np.sum(o0[1] != want.astype(o0[1].dtype)))
                    ctx.oracle_fail("a level written without error differs from the previous level downscaled "
                                    "as one array", dict(desc, wrong_voxels=bad, total=int(want.size)))
                elif outcomes[1][0] == "ok" and not np.array_equal(outcomes[1][1].view(np.uint8), o0[1].view(np.uint8)):
                    ctx.oracle_fail("the new level depends on uninitialised memory (unwritten voxels)", desc)
        # model: per-axis plans
        for a in range(3):
            reqs.append(f"pyr-axis {old['size'][a]} {new['size'][a]} {old['chunk_sizes'][0][a]} {new['chunk_sizes'][0][a]}")
        meta.append((desc, o0))
    if ctx.driver_ok and reqs:
        reps = core.driver_batch(reqs)
        for i, (desc, o0) in enumerate(meta):
            axes = reps[3 * i:3 * i + 3]
            model_ok = all(r.startswith("ok") for r in axes)
            # the code tests the factors of all three axes before it divides
            zero = any(r == "err zerodiv" for r in axes) and not any(r == "err factor" for r in axes)
            impl_ok = o0[0] == "ok"
            if model_ok != impl_ok:
                ctx.corr_mismatch("pyramid-outcome", desc, o0[0] + (":" + str(o0[1]) if o0[0] == "err" else ""),
                                  " | ".join(r[:30] for r in axes))
            elif zero != (o0[0] == "err" and o0[1] == "ZeroDivisionError"):
                ctx.corr_mismatch("pyramid-zerodiv", desc, str(o0[1]), " | ".join(r[:30] for r in axes))


def replay(ctx, data):
    run(ctx)
