"""C16 — Generated metadata and transform place the image correctly in space."""
import json
import os
import shutil
import struct
import tempfile
from fractions import Fraction

import numpy as np

from .. import core

RULE = ("NIfTI files with affines = rotation (from small integer quaternions) x shear x axis flips / permutations "
        "x anisotropic voxel sizes, translations; 3-D / 4-D / RGB; all on-disk types; identity and patched header "
        "scaling; --ignore-scaling / --input-max; optional --sharding string; volume_file_to_info run for real; "
        "info_fullres.json and transform.json re-parsed: every voxel-centre identity checked in float with "
        "relative tolerance 1e-9 and the 12 transform entries compared with the Lean rational model; announced "
        "data type checked against the values nibabel actually delivers. Trivial = identity affine.")
ASSUMPTIONS = [
    "nibabel.affines.voxel_sizes (column norms) is observed, not modelled",
    "float64 evaluation of the transform agrees with exact rational evaluation to 1e-9 (well-conditioned inputs)",
    "the compact URL form is checked by parsing it back (float repr round trip)",
]


def rand_affine(rng):
    # rotation from an integer quaternion (exactly orthogonal up to float rounding)
    while True:
        q = [rng.randrange(-3, 4) for _ in range(4)]
        n = sum(x * x for x in q)
        if n:
            break
    a, b, c, d = q
    R = np.array([[a*a+b*b-c*c-d*d, 2*(b*c-a*d), 2*(b*d+a*c)],
                  [2*(b*c+a*d), a*a-b*b+c*c-d*d, 2*(c*d-a*b)],
                  [2*(b*d-a*c), 2*(c*d+a*b), a*a-b*b-c*c+d*d]], dtype=float) / n
    kind = rng.choice(["identity", "diag", "rot", "rot", "shear", "perm-flip"])
    v = np.array([rng.choice([0.5, 1.0, 0.02, 2.0, 1.25, 0.3]) for _ in range(3)])
    if kind == "identity":
        M = np.eye(3)
    elif kind == "diag":
        M = np.diag(v * np.array([rng.choice([-1, 1]) for _ in range(3)]))
    elif kind == "rot":
        M = R @ np.diag(v)
    elif kind == "shear":
        S = np.eye(3)
        S[0, 1] = rng.choice([0.25, -0.5, 0.1])
        S[1, 2] = rng.choice([0.0, 0.5])
        M = R @ S @ np.diag(v)
    else:
        P = np.eye(3)[list(rng.sample(range(3), 3))]
        M = P @ np.diag(v * np.array([rng.choice([-1, 1]) for _ in range(3)]))
    A = np.eye(4)
    A[:3, :3] = M
    A[:3, 3] = [rng.choice([0.0, 10.5, -73.25, 128.0]) for _ in range(3)]
    return A, kind


def fr(x):
    f = Fraction(float(x))
    return f"{f.numerator}/{f.denominator}"


def run(ctx):
    import nibabel
    from neuroglancer_scripts import transform as tr_mod
    from neuroglancer_scripts import volume_reader
    rng = ctx.rng
    reqs, meta = [], []
    treqs, tmeta = [], []
    RGB = np.dtype([("R", "u1"), ("G", "u1"), ("B", "u1")])
    for _ in range(ctx.budget(60, 1500)):
        tmp = tempfile.mkdtemp(prefix="ngv_c16_")
        try:
            A, akind = rand_affine(rng)
            kind = rng.choice(["3d", "3d", "4d", "rgb"])
            size = tuple(rng.randrange(1, 6) for _ in range(3))
            in_dt = rng.choice(["uint8", "int8", "uint16", "int16", "uint32", "int32", "uint64", "int64", "float32", "float64"])
            C = 1
            if kind == "rgb":
                raw = np.zeros(size, dtype=RGB)
                raw["R"] = 7
                in_dt, C = "uint8", 3
            else:
                if kind == "4d":
                    C = rng.choice([2, 4])
                shape = size + ((C,) if kind == "4d" else ())
                raw = (np.arange(int(np.prod(shape))) % 100).astype(in_dt).reshape(shape)
            path = os.path.join(tmp, "v.nii")
            img = nibabel.Nifti1Image(raw, A, dtype=raw.dtype)
            # the header may DECLARE its spatial unit; whatever reading the tool takes (the documentation says
            # millimetres), resolution, linear part and translation must all follow the SAME one
            unit = rng.choice([None, None, None, "mm", "micron", "meter", "unknown"])
            if unit is not None:
                img.header.set_xyzt_units(unit)
            nibabel.save(img, path)
            scaled = kind != "rgb" and rng.random() < 0.4
            if scaled:
                with open(path, "r+b") as f:
                    f.seek(112)
                    f.write(struct.pack("<ff", *rng.choice([(0.5, 0.0), (1.0, -1.5), (2.0, 1.0), (0.01, 3.0)])))
            ignore = scaled and rng.random() < 0.3
            input_max = rng.choice([None, None, 255.0]) if kind != "rgb" else None
            opts = {}
            if rng.random() < 0.2:
                opts = {"sharding": f"{rng.randrange(3)},{rng.randrange(3)},{rng.randrange(3)}", "gzip": rng.random() < 0.5}
            dest = os.path.join(tmp, "out")
            desc = {"affine_kind": akind, "affine": A.tolist(), "declared_unit": unit, "kind": kind, "size": list(size), "input_dtype": in_dt,
                    "scaled_header": scaled, "ignore_scaling": ignore, "input_max": input_max, "options": opts}
            try:
                if rng.random() < 0.35:
                    # through the command line: volume-to-precomputed --generate-info (argparse glue)
                    from neuroglancer_scripts.scripts import volume_to_precomputed as _cli
                    argv = ["volume-to-precomputed", "--generate-info", path, dest]
                    argv += ["--ignore-scaling"] if ignore else []
                    argv += ["--input-max", repr(input_max)] if input_max is not None else []
                    argv += ["--sharding", opts["sharding"]] if opts.get("sharding") else []
                    argv += ["--no-gzip"] if opts.get("gzip") is False else []
                    ctx.bump("cli_runs")
                    try:
                        rc = _cli.main(argv)
                    except SystemExit as exc:
                        rc = exc.code
                else:
                    rc = volume_reader.volume_file_to_info(path, dest, ignore_scaling=ignore, input_max=input_max,
                                                           options=opts)
            except Exception as exc:  # noqa
                ctx.oracle_fail(f"volume_file_to_info raised {type(exc).__name__}: {exc}", desc)
                continue
            ctx.case(json.dumps(desc, sort_keys=True), nontrivial=akind != "identity",
                     sample=desc if rng.random() < 0.03 else None)
            ctx.hist("affine_kind", akind)
            try:
                with open(os.path.join(dest, "info_fullres.json")) as f:
                    info = json.load(f)
                with open(os.path.join(dest, "transform.json")) as f:
                    T = np.array(json.load(f), dtype=float)
            except Exception as exc:  # noqa
                ctx.oracle_fail(f"generated metadata is not valid JSON ({type(exc).__name__})", desc)
                continue
            sc = info["scales"][0]
            loaded = nibabel.load(path)
            aff = loaded.affine
            vs = nibabel.affines.voxel_sizes(aff)
            # ---- info clauses ----
            if sc["size"] != list(size):
                ctx.oracle_fail("info size differs from the volume size", dict(desc, got=sc["size"]))
            if info["num_channels"] != C:
                ctx.oracle_fail("info channel count is wrong", dict(desc, got=info["num_channels"], want=C))
            readings = [1e6] + ([{"micron": 1e3, "meter": 1e9}[unit]] if unit in ("micron", "meter") else [])
            ctx.hist("declared_unit", unit)

            def consistent(u):
                if not np.allclose(sc["resolution"], vs * u, rtol=1e-12, atol=0):
                    return False
                res_ = np.array(sc["resolution"], dtype=float)
                for idx in [(0, 0, 0), (size[0] - 1, size[1] - 1, size[2] - 1), (1, 0, 2), (0.25, 3.5, -1)]:
                    i = np.array(idx, dtype=float)
                    lhs = T[:3, :3] @ ((i + 0.5) * res_) + T[:3, 3]
                    rhs = (aff[:3, :3] @ i + aff[:3, 3]) * u
                    scale_ = max(1.0, float(np.max(np.abs(rhs))), float(np.max(np.abs(aff[:3, :3]))) * u)
                    if float(np.max(np.abs(lhs - rhs))) / scale_ > 1e-9:
                        return False
                return True
            if len(readings) > 1 and not any(consistent(u) for u in readings):
                ctx.oracle_fail("resolution and transform do not place the image consistently under ANY reading of the "
                                "declared spatial unit (millimetres as documented, or the unit the header declares)",
                                dict(desc, resolution=sc["resolution"], transform=T.tolist()))
                continue
            if len(readings) > 1 and not consistent(1e6):
                ctx.bump("declared_unit_honoured")
                continue       # consistently read in the declared unit: the millimetre-based checks below do not apply
            if not np.allclose(sc["resolution"], vs * 1e6, rtol=1e-12, atol=0):
                ctx.oracle_fail("resolution is not the voxel size in nanometres", dict(desc, got=sc["resolution"]))
            if opts.get("sharding"):
                m, s_, p = (int(x) for x in opts["sharding"].split(","))
                sh = sc.get("sharding", {})
                if (sh.get("minishard_bits"), sh.get("shard_bits"), sh.get("preshift_bits")) != (m, s_, p):
                    ctx.oracle_fail("--sharding m,s,p is not reflected in the info", dict(desc, got=sh))
            # data type able to hold the values (or flagged imperfect: exit status 4)
            proxy = loaded.dataobj
            if ignore:
                proxy._slope, proxy._inter = 1.0, 0.0
            vals = np.asanyarray(proxy) if kind != "rgb" else None
            dt = np.dtype(info["data_type"])
            if vals is not None and rc == 0 and input_max is None:
                with np.errstate(all="ignore"):
                    back = vals.astype(dt).astype(vals.dtype)
                if not np.array_equal(back, vals):
                    ctx.oracle_fail("exit status 0 but the announced data type cannot hold the volume's values",
                                    dict(desc, data_type=info["data_type"], value_dtype=str(vals.dtype),
                                         values=[float(vals.min()), float(vals.max())]))
            if rc not in (0, 4):
                ctx.oracle_fail(f"unexpected exit status {rc}", desc)
            # ---- transform: voxel-centre identity ----
            res = np.array(sc["resolution"], dtype=float)
            worst = 0.0
            for idx in [(0, 0, 0), (size[0] - 1, size[1] - 1, size[2] - 1), (1, 0, 2), (0.25, 3.5, -1)]:
                i = np.array(idx, dtype=float)
                lhs = T[:3, :3] @ ((i + 0.5) * res) + T[:3, 3]
                rhs = (aff[:3, :3] @ i + aff[:3, 3]) * 1e6
                scale_ = max(1.0, float(np.max(np.abs(rhs))), float(np.max(np.abs(aff[:3, :3]))) * 1e6)
                worst = max(worst, float(np.max(np.abs(lhs - rhs))) / scale_)
            if worst > 1e-9 or not np.allclose(T[3], [0, 0, 0, 1]):
                ctx.oracle_fail("the transform does not map voxel centres (corner-based coordinates) to the "
                                "physical positions the file's affine assigns to them",
                                dict(desc, relative_error=worst, transform=T.tolist()))
            # compact URL form parses back to the same matrix
            url = tr_mod.matrix_as_compact_urlsafe_json(T.tolist())
            try:
                back = np.array(json.loads(url.replace("_", ",")), dtype=float)
                if not np.array_equal(back, T):
                    ctx.oracle_fail("the compact URL form does not parse back to the same matrix", dict(desc, url=url))
            except Exception:  # noqa
                ctx.oracle_fail("the compact URL form is not parseable", dict(desc, url=url))
            # ---- a SECOND volume (other size and affine) described into the same directory: refused, leaving the files
            # as they are, or info and transform are both the second volume's - never one of each ----
            if rng.random() < 0.25:
                A2, _ = rand_affine(rng)
                size2 = tuple(rng.randrange(1, 6) for _ in range(3))
                raw2 = np.zeros(size2, dtype="uint8")
                path2 = os.path.join(tmp, "v2.nii")
                nibabel.save(nibabel.Nifti1Image(raw2, A2, dtype=raw2.dtype), path2)
                snap = {n: open(os.path.join(dest, n), "rb").read() for n in ("info_fullres.json", "transform.json")}
                try:
                    if rng.random() < 0.5:
                        from neuroglancer_scripts.scripts import volume_to_precomputed as _cli2
                        try:
                            rc2 = _cli2.main(["volume-to-precomputed", "--generate-info", path2, dest])
                        except SystemExit as exc:
                            rc2 = exc.code
                    else:
                        rc2 = volume_reader.volume_file_to_info(path2, dest, options=opts)
                except Exception:  # noqa
                    rc2 = "raised"
                now = {n: open(os.path.join(dest, n), "rb").read() for n in ("info_fullres.json", "transform.json")}
                ctx.hist("second_generate_info", "refused" if rc2 not in (0, 4) else "accepted")
                d2 = dict(desc, second_affine=A2.tolist(), second_size=list(size2), second_status=rc2)
                if rc2 in (0, 4):
                    i2 = json.loads(now["info_fullres.json"])
                    T2 = np.array(json.loads(now["transform.json"]), dtype=float)
                    aff2 = nibabel.load(path2).affine
                    res2 = np.array(i2["scales"][0]["resolution"], dtype=float)
                    ok2 = i2["scales"][0]["size"] == list(size2)
                    for idx in [(0, 0, 0), (1, 0, 2)]:
                        i_ = np.array(idx, dtype=float)
                        lhs = T2[:3, :3] @ ((i_ + 0.5) * res2) + T2[:3, 3]
                        rhs = (aff2[:3, :3] @ i_ + aff2[:3, 3]) * 1e6
                        if float(np.max(np.abs(lhs - rhs))) > 1e-6 * max(1.0, float(np.max(np.abs(rhs)))):
                            ok2 = False
                    if not ok2:
                        ctx.oracle_fail("a second --generate-info into the same directory reported success but info and "
                                        "transform do not both describe the second volume", d2)
                elif now != snap:
                    ctx.oracle_fail("a refused second --generate-info changed the files of the first", d2)
            # ---- Lean model ----
            reqs.append("ng-transform " + ",".join(fr(aff[r, c]) for r in range(3) for c in range(4)) + " "
                        + ",".join(fr(v) for v in vs))
            meta.append((desc, T))
            if kind != "rgb":
                in_name = str(np.asanyarray(proxy[tuple(0 for _ in raw.shape)]).dtype) if input_max is None else "float64"
                treqs.append(f"ng-type {in_name}")
                tmeta.append((desc, f"{info['data_type']} {rc}"))
        finally:
            shutil.rmtree(tmp, ignore_errors=True)
    if ctx.driver_ok and reqs:
        for rep, (desc, T) in zip(core.driver_batch(reqs), meta):
            vals = [Fraction(int(x.split("/")[0]), int(x.split("/")[1])) for x in rep.split(",")]
            for k, q in enumerate(vals):
                got = float(T[k // 4, k % 4])
                ref = float(q)
                if abs(got - ref) > 1e-9 * max(1.0, abs(ref), 1e6 * float(np.max(np.abs(np.array(desc["affine"])[:3, :3])))):
                    ctx.corr_mismatch("transform-entry", dict(desc, entry=[k // 4, k % 4]), got, ref)
                    break
        for rep, (desc, want) in zip(core.driver_batch(treqs), tmeta):
            if rep != want:
                ctx.corr_mismatch("announced-type", desc, want, rep)


def replay(ctx, data):
    run(ctx)
