"""C14 — Reading over HTTP gives the same bytes as reading the files locally."""
import itertools
import json
import os
import re
import shutil
import tempfile
import urllib.parse

import numpy as np

from .. import core, shardlib
from ..httpsrv import Server

RULE = ("loopback static server emulating the documented configuration (flat chunk URLs mapped onto flat / "
        "sub-directory layouts, .gz with Content-Encoding, Range for shards); datasets: plain (4 layouts) and "
        "sharded with one and TWO scales (raw/gzip encodings, bit triples in 0..3), single .shard files and "
        "legacy .index/.data pairs; URL spellings with/without trailing slash and precomputed://, dataset directories whose names hold a "
        "space or non-ASCII letters addressed by their percent-encoded URL; every info "
        "and chunk fetched through get_accessor_for_url(http://…) and compared with the local accessor; "
        "dispatch with and without the sharding option; persistent faults per resource: 404, 403, 429, 500, "
        "502, 503, 504, short and over-long bodies, Range ignored, connection dropped mid-body. "
        "Trivial = single-chunk dataset.")
ASSUMPTIONS = [
    "requests/urllib3 behaviour (redirects, content decoding, IncompleteRead) is observed, not modelled",
    "the emulated server stands for the documented nginx/Apache configuration",
]


def plain_dataset(rng, base):
    from neuroglancer_scripts.file_accessor import FileAccessor
    cfg = {"flat": rng.random() < 0.5, "gzip": rng.random() < 0.5}
    acc = FileAccessor(base, **cfg)
    size = [rng.randrange(1, 9) for _ in range(3)]
    cs = [rng.choice([2, 4, 8]) for _ in range(3)]
    info = {"type": "image", "data_type": "uint8", "num_channels": 1,
            "scales": [{"key": "k", "size": size, "chunk_sizes": [cs], "encoding": "raw",
                        "resolution": [1, 1, 1], "voxel_offset": [0, 0, 0]}]}
    acc.store_file("info", json.dumps(info).encode(), mime_type="application/json", overwrite=True)
    chunks = {}
    for x in range(0, size[0], cs[0]):
        for y in range(0, size[1], cs[1]):
            for z in range(0, size[2], cs[2]):
                c = (x, min(x + cs[0], size[0]), y, min(y + cs[1], size[1]), z, min(z + cs[2], size[2]))
                if rng.random() < 0.85:
                    b = bytes(rng.randrange(256) for _ in range(rng.choice([0, 0, 1, 2] + [rng.randrange(1, 30)] * 6)))
                    acc.store_chunk(b, "k", c)
                    chunks[c] = b
    return cfg, info, chunks


def run(ctx):
    from neuroglancer_scripts.accessor import DataAccessError, get_accessor_for_url
    from neuroglancer_scripts.file_accessor import FileAccessor
    from neuroglancer_scripts.http_accessor import HttpAccessor
    from neuroglancer_scripts.sharded_http_accessor import ShardedHttpAccessor
    rng = ctx.rng
    reqs, meta = [], []

    def model(op, code, blen, want, impl, desc):
        reqs.append(f"http {op} {code} {blen} {want}")
        meta.append((desc, impl))

    for _ in range(ctx.budget(10, 200)):
        tmp = tempfile.mkdtemp(prefix="ngv_c14_")
        srv = None
        try:
            # ---------------- plain dataset ----------------
            # directory names with a space or non-ASCII letters are addressed by their percent-encoded URL, as a
            # browser or Neuroglancer itself would send it
            pname = rng.choice(["plain", "plain", "my data", "donn\u00e9es 2"])
            sname = rng.choice(["sh", "sh", "sharded set", "sch\u00e4rfe"])
            pq, sq = urllib.parse.quote(pname), urllib.parse.quote(sname)
            base = os.path.join(tmp, pname)
            os.makedirs(base)
            cfg, info, chunks = plain_dataset(rng, base)
            srv = Server(tmp)
            spell = rng.choice(["{u}/{p}", "{u}/{p}/", "precomputed://{u}/{p}", "{u}/{p}/?x=1#frag"])
            url = spell.format(u=srv.url, p=pq)
            desc = {"dataset": "plain", "layout": cfg, "url_form": spell, "directory": pname}
            try:
                acc = get_accessor_for_url(url, {"sharding": None} if rng.random() < 0.5 else {})
            except Exception as exc:  # noqa
                ctx.oracle_fail(f"opening a plain HTTP dataset raised {type(exc).__name__}: {exc}", desc)
                continue
            if isinstance(acc, ShardedHttpAccessor) or not isinstance(acc, HttpAccessor):
                ctx.oracle_fail("a dataset whose info does not declare sharding was dispatched to the sharded reader", desc)
                continue
            local = FileAccessor(base, **cfg)
            try:
                http_info = acc.fetch_file("info")
            except Exception as exc:  # noqa
                http_info = f"!{type(exc).__name__}: {exc}"[:200]
            if http_info != local.fetch_file("info"):
                ctx.oracle_fail("info fetched over HTTP differs from the local file", dict(desc, got=str(http_info)[:200]))
                continue
            for c, b in chunks.items():
                try:
                    got = acc.fetch_chunk("k", c)
                except Exception as exc:  # noqa
                    got = f"!{type(exc).__name__}"
                ctx.case(("plain", json.dumps(cfg), c, b), nontrivial=len(chunks) > 1)
                if got != local.fetch_chunk("k", c):
                    ctx.oracle_fail("chunk fetched over HTTP differs from the local read", dict(desc, chunk=list(c), got=str(got)[:60]))
            # missing chunk / missing file
            missing = (8000, 8008, 0, 8, 0, 8)
            for what, fn in (("fetch_chunk", lambda: acc.fetch_chunk("k", missing)),
                             ("fetch_file", lambda: acc.fetch_file("nothing-here"))):
                try:
                    r = fn()
                    ctx.oracle_fail(f"{what} of a missing resource returned data instead of a data-access error",
                                    dict(desc, got=str(r)[:40]))
                except DataAccessError:
                    pass
                except Exception as exc:  # noqa
                    ctx.oracle_fail(f"{what} of a missing resource raised {type(exc).__name__}, not DataAccessError", desc)
            if acc.file_exists("nothing-here") is not False or acc.file_exists("info") is not True:
                ctx.oracle_fail("file_exists over HTTP is wrong", desc)
            model("exists", 404, 0, 0, "false", desc)
            model("exists", 200, 5, 0, "true", desc)
            # persistent faults on one chunk and on the info
            if chunks:
                c0 = next(iter(chunks))
                pat = "k/%d-%d_%d-%d_%d-%d" % c0
                for fk in [{"kind": "status", "code": code} for code in (403, 404, 429, 500, 502, 503, 504)] + [{"kind": "drop"}]:
                    srv.set_faults([(pat, fk)])
                    facc = get_accessor_for_url(srv.url + "/" + pq + "/")
                    try:
                        r = facc.fetch_chunk("k", c0)
                        res = f"ok {len(r)}"
                        ctx.oracle_fail("an HTTP failure was returned as chunk data instead of a data-access error",
                                        dict(desc, fault=fk, got=r[:30].hex()))
                    except DataAccessError:
                        res = "DataAccessError"
                    except Exception as exc:  # noqa
                        res = "!" + type(exc).__name__
                        ctx.oracle_fail(f"an HTTP failure surfaced as {type(exc).__name__}, not DataAccessError",
                                        dict(desc, fault=fk))
                    ctx.case(("plain-fault", json.dumps(fk)))
                    ctx.hist("plain_fault", fk.get("code", fk["kind"]))
                    model("fetch", fk.get("code", 0), 23, 0, res, dict(desc, fault=fk))
                    if fk["kind"] == "status" and fk["code"] != 404:
                        try:
                            facc.file_exists(pat)
                            ctx.oracle_fail("file_exists ignored an HTTP error status", dict(desc, fault=fk))
                        except DataAccessError:
                            pass
                        except Exception as exc:  # noqa
                            ctx.oracle_fail(f"file_exists surfaced {type(exc).__name__}", dict(desc, fault=fk))
                srv.set_faults([])
            # ---------------- sharded dataset, two scales ----------------
            sbase = os.path.join(tmp, sname)
            ds1 = shardlib.gen_dataset(rng, small=True)
            ds2 = shardlib.gen_dataset(rng, small=True)
            ds2.update({"m": ds1["m"], "s": ds1["s"], "p": ds1["p"]})
            shardlib.write_dataset(ds1, sbase, key="k")
            shardlib.write_dataset(ds2, sbase, key="k2")
            i1, i2 = shardlib.make_info(ds1, "k"), shardlib.make_info(ds2, "k2")
            info = dict(i1, scales=i1["scales"] + i2["scales"])
            with open(os.path.join(sbase, "info"), "w") as f:
                json.dump(info, f)
            legacy = rng.random() < 0.5
            if legacy:
                for key, ds in (("k", ds1), ("k2", ds2)):
                    d = os.path.join(sbase, key)
                    for name in os.listdir(d):
                        if name.endswith(".shard"):
                            with open(os.path.join(d, name), "rb") as f:
                                raw = f.read()
                            cut = (2 ** ds["m"]) * 16
                            with open(os.path.join(d, name[:-6] + ".index"), "wb") as f:
                                f.write(raw[:cut])
                            with open(os.path.join(d, name[:-6] + ".data"), "wb") as f:
                                f.write(raw[cut:])
                            os.unlink(os.path.join(d, name))
            sdesc = {"dataset": "sharded", "directory": sname, "legacy_index_data": legacy,
                     "bits": [ds1["m"], ds1["s"], ds1["p"]], "enc": [ds1["index_enc"], ds1["data_enc"]]}
            try:
                surl = srv.url + "/" + sq + rng.choice(["", "/"])
                hacc = get_accessor_for_url(surl)
            except Exception as exc:  # noqa
                ctx.oracle_fail(f"opening a sharded HTTP dataset raised {type(exc).__name__}: {exc}", sdesc)
                continue
            if not isinstance(hacc, ShardedHttpAccessor):
                ctx.oracle_fail("a dataset whose info declares sharding was not dispatched to the sharded reader", sdesc)
                continue
            model_disp = ("http-dispatch 0 1", "sharded")
            order = [("k", ds1, c) for c in ds1["order"]] + [("k2", ds2, c) for c in ds2["order"]]
            rng.shuffle(order)
            for key, ds, cell in order:
                try:
                    got = hacc.fetch_chunk(key, shardlib.coords_of(ds, cell))
                except Exception as exc:  # noqa
                    got = f"!{type(exc).__name__}: {exc}"
                ctx.case(("sharded", key, cell, ds["payload"][cell], legacy), nontrivial=len(order) > 1)
                if got != ds["payload"][cell]:
                    ctx.oracle_fail("sharded chunk fetched over HTTP differs from what the local reader returns",
                                    dict(sdesc, scale=key, cell=list(cell), got=str(got)[:80]))
                    break
            # the SAME URL opened again in the same process (a viewer or a second command in one session): dispatch and
            # bytes must not depend on what an earlier opening left behind
            for again in (2, 3):
                try:
                    h2 = get_accessor_for_url(surl)
                except Exception as exc:  # noqa
                    ctx.oracle_fail(f"opening the same sharded HTTP dataset a {again}. time raised {type(exc).__name__}: {exc}", sdesc)
                    break
                if not isinstance(h2, ShardedHttpAccessor):
                    ctx.oracle_fail(f"the {again}. opening of a sharded dataset's URL was not dispatched to the sharded reader",
                                    dict(sdesc, got=type(h2).__name__))
                    break
                for key, ds, cell in order[:4]:
                    try:
                        got = h2.fetch_chunk(key, shardlib.coords_of(ds, cell))
                    except Exception as exc:  # noqa
                        got = f"!{type(exc).__name__}: {exc}"
                    ctx.case(("sharded-reopened", again, key, cell, ds["payload"][cell], legacy))
                    if got != ds["payload"][cell]:
                        ctx.oracle_fail("sharded chunk fetched through a re-opened URL differs from what the local reader returns",
                                        dict(sdesc, opening=again, scale=key, cell=list(cell), got=str(got)[:80]))
                        break
            # read_bytes of the HTTP shard objects against the local shard reader and the files
            from neuroglancer_scripts.sharded_file_accessor import ShardedFileAccessor
            try:
                lacc = ShardedFileAccessor(sbase)
                for key, ds in (("k", ds1), ("k2", ds2)):
                    if not ds["order"]:
                        continue
                    lacc.fetch_chunk(key, shardlib.coords_of(ds, ds["order"][0]))
                    hscale = hacc.shard_scale_dict[key]
                    lscale = lacc.ro_shard_dict.get(key)
                    for skey, hshard in list(hscale.shard_dict.items())[:3]:
                        d = os.path.join(sbase, key)
                        stem = os.path.join(d, hshard.shard_key_str)
                        if legacy:
                            idxb = open(stem + ".index", "rb").read()
                            datb = open(stem + ".data", "rb").read()
                        else:
                            idxb, datb = None, open(stem + ".shard", "rb").read()
                        whole = (idxb or b"") + datb
                        if len(whole) > 6000:
                            continue
                        lshard = lscale.get_shard(skey) if lscale is not None else None
                        for _ in range(6):
                            off = rng.choice([0, rng.randrange(len(whole) + 1), max(0, len(whole) - rng.randrange(1, 9)),
                                              len(idxb) if idxb else 0, len(whole) + rng.randrange(0, 5)])
                            ln = rng.choice([0, 1, 8, 16, rng.randrange(1, 60), len(whole) - off if len(whole) > off else 3])
                            if legacy and off < len(idxb) < off + ln:
                                continue   # the package never reads across the header boundary
                            try:
                                got = "ok " + core.hexs(hshard.read_bytes(off, ln))
                            except OSError:
                                got = "IOError"
                            except Exception as exc:  # noqa
                                got = "!" + type(exc).__name__
                            try:
                                loc = lshard.read_bytes(off, ln) if lshard is not None else whole[off:off + ln]
                                locs = "ok " + core.hexs(loc)
                            except OSError:
                                loc, locs = None, "IOError"
                            if loc is None and off + ln <= len(whole):
                                ctx.oracle_fail("the local shard reader failed on bytes that exist", dict(sdesc, off=off, len=ln))
                            if loc is None:
                                loc = whole[off:off + ln]
                            elif got.startswith("ok") is False and got == "IOError" and off + ln > len(whole) and ln > 0:
                                ctx.oracle_fail("the local shard reader returned a short read where the HTTP reader raises",
                                                dict(sdesc, off=off, len=ln))
                            ctx.case(("range", legacy, off >= len(whole), off + ln > len(whole)))
                            ctx.hist("range_kind", "past-end" if off >= len(whole) else "straddles-end" if off + ln > len(whole) else "inside")
                            if got.startswith("ok") and bytes.fromhex(got[3:].replace("-", "")) != loc:
                                ctx.oracle_fail("HTTP read_bytes returned bytes that differ from the local read_bytes",
                                                dict(sdesc, off=off, len=ln, got=got[:60], local=loc.hex()[:60]))
                            if got.startswith("!") or (got == "IOError" and off + ln <= len(whole)):
                                ctx.oracle_fail("HTTP read_bytes failed on bytes that exist", dict(sdesc, off=off, len=ln, got=got))
                            reqs.append(f"http-range {core.hexs(idxb) if legacy else '-'} {core.hexs(datb)} {off} {ln}")
                            meta.append((dict(sdesc, off=off, len=ln), got + " local " + locs))
            except Exception as exc:  # noqa
                ctx.oracle_fail(f"local sharded reader failed on the dataset: {type(exc).__name__}: {exc}", sdesc)
            # faults on the shard files: the result must be an error, never bytes
            if ds1["order"]:
                cell = ds1["order"][0]
                for fk in [{"kind": "status", "code": 404}, {"kind": "status", "code": 500}, {"kind": "status", "code": 503},
                           {"kind": "short", "method": "GET"}, {"kind": "long", "method": "GET"},
                           {"kind": "ignore-range", "method": "GET"}, {"kind": "drop", "method": "GET"}]:
                    srv.set_faults([("/" + re.escape(sq) + r"/k/.*\.(shard|data|index)$", fk)])
                    try:
                        f2 = get_accessor_for_url(srv.url + "/" + sq + "/")
                        r = f2.fetch_chunk("k", shardlib.coords_of(ds1, cell))
                        if r != ds1["payload"][cell]:
                            ctx.oracle_fail("a faulty shard transfer returned wrong bytes instead of an error",
                                            dict(sdesc, fault=fk, got=r[:30].hex()))
                        res = f"ok {len(r)}"
                    except (OSError, DataAccessError) as exc:
                        res = "IOError"
                    except Exception as exc:  # noqa
                        res = "!" + type(exc).__name__
                        if fk["kind"] != "status" or fk["code"] != 404:
                            ctx.oracle_fail(f"a faulty shard transfer surfaced as {type(exc).__name__} instead of an I/O error",
                                            dict(sdesc, fault=fk))
                    ctx.case(("shard-fault", json.dumps(fk)))
                    ctx.hist("shard_fault", fk.get("code", fk["kind"]))
                srv.set_faults([])
            reqs.append(model_disp[0])
            meta.append((sdesc, model_disp[1]))
            reqs.append("http-dispatch 0 0")
            meta.append((desc, "plain"))
        finally:
            if srv:
                srv.close()
            shutil.rmtree(tmp, ignore_errors=True)
    if ctx.driver_ok and reqs:
        for rep, (desc, impl) in zip(core.driver_batch(reqs), meta):
            if rep != impl and not (impl.startswith("ok") and rep.startswith("ok")):
                ctx.corr_mismatch("http-decision", desc, impl, rep)


def replay(ctx, data):
    run(ctx)
