"""C07 — Downscalers compute the documented block statistic exactly."""
import itertools
from fractions import Fraction

import math

import numpy as np

from .. import core
from .c11 import nearest_f32_bits

RULE = ("arrays with 1-3 channels and extents 1..9 per axis (odd, even, size 1), data types u8/u16/u32/u64/"
        "float32, factors {1,2}^3 for averaging and {1,2,3,4}^3 for majority/striding, value patterns "
        "(0/1/type max/max-1/2^24±1/random/few labels/half-half ties with the larger label first), outside "
        "values None, 0, 1, 7, 255, type max, 0.5, methods obtained by name or as `auto` + info type; real Downscaler.downscale vs exact oracle (Fractions) and "
        "vs the Lean model (selection by Down.getDownscaler, voxels by Sel.voxel); thorough adds all shapes <= 4^3 x all factor triples. Trivial = all factors 1.")
ASSUMPTIONS = [
    "float64 arithmetic is exact on integer data below 2^50 (sums of 8 values, halvings)",
    "float32 data: when the exponents of a block's values span so few bits that float64 sums are exact, the result "
    "must be the exact mean rounded once to float32; otherwise it must lie within the contributing values and "
    "within 2^-22 relative of the exact mean; it is always finite",
]


def oracle(method, a, factors, outside):
    """exact reference on one channel (Z, Y, X) -> list of Fractions / ints, shape."""
    fz, fy, fx = factors[2], factors[1], factors[0]
    Z, Y, X = a.shape
    oz, oy, ox = -(-Z // fz), -(-Y // fy), -(-X // fx)
    out = np.empty((oz, oy, ox), dtype=object)
    for z in range(oz):
        for y in range(oy):
            for x in range(ox):
                if method == "stride":
                    out[z, y, x] = a[z * fz, y * fy, x * fx]
                elif method == "majority":
                    blk = a[z * fz:(z + 1) * fz, y * fy:(y + 1) * fy, x * fx:(x + 1) * fx].ravel()
                    vals, cnts = {}, None
                    for v in blk:
                        vals[v] = vals.get(v, 0) + 1
                    best = max(vals.values())
                    out[z, y, x] = min(v for v, c in vals.items() if c == best)
                else:
                    tot = Fraction(0)
                    lo = hi = None
                    exps = []
                    for dz in range(fz):
                        for dy in range(fy):
                            for dx in range(fx):
                                zz, yy, xx = z * fz + dz, y * fy + dy, x * fx + dx
                                if outside is None:
                                    v = a[min(zz, Z - 1), min(yy, Y - 1), min(xx, X - 1)]
                                elif zz < Z and yy < Y and xx < X:
                                    v = a[zz, yy, xx]
                                else:
                                    v = outside
                                v = Fraction(float(v)) if isinstance(v, (float, np.floating)) else Fraction(int(v))
                                tot += v
                                if v != 0:
                                    exps.append(math.frexp(float(v))[1])
                                lo = v if lo is None else min(lo, v)
                                hi = v if hi is None else max(hi, v)
                    # float64 sums of these float32 values are exact when their exponents span few bits
                    narrow = ((not exps) or (max(exps) - min(exps) + 24 + 4 <= 53)) and (
                        outside is None or float(np.float32(outside)) == float(outside))
                    out[z, y, x] = (tot / (fz * fy * fx), lo, hi, narrow)
    return out


def rhe(fr):
    f = fr.numerator // fr.denominator
    r = fr - f
    if r < Fraction(1, 2):
        return f
    if r > Fraction(1, 2):
        return f + 1
    return f if f % 2 == 0 else f + 1


def gen_array(rng, dt, shape):
    n = int(np.prod(shape))
    nr = np.random.default_rng(rng.getrandbits(32))
    if dt == "float32":
        mode = rng.choice(["small", "wide", "ints"])
        if mode == "small":
            return nr.standard_normal(shape).astype("float32")
        if mode == "wide":
            return (nr.standard_normal(shape) * 10.0 ** nr.integers(-20, 20, size=shape)).astype("float32")
        return nr.integers(0, 1000, size=shape).astype("float32")
    top = int(np.iinfo(dt).max)
    mode = rng.choice(["random", "few", "extreme", "tie", "const", "bigsmall"])
    if mode == "random":
        hi = min(top, 2**50 - 1)
        return nr.integers(0, hi, size=shape, dtype=np.uint64).astype(dt)
    if mode == "few":
        labels = np.array([rng.randrange(min(top, 2**50)) for _ in range(rng.choice([2, 3, 4]))], dtype=np.uint64)
        return labels[nr.integers(0, len(labels), size=n)].astype(dt).reshape(shape)
    if mode == "extreme":
        pool = [0, 1, top, top - 1, min(top, 2**24 + 1), min(top, 2**24 - 1), min(top, 2**53 + 1)]
        return np.array([rng.choice(pool) for _ in range(n)], dtype=np.uint64).astype(dt).reshape(shape)
    if mode == "tie":
        hi_label, lo_label = 9, 3
        a = np.full(n, lo_label, dtype=dt)
        a[::2] = hi_label
        a[0] = hi_label
        return a.reshape(shape)
    if mode == "const":
        return np.full(shape, rng.choice([0, 1, top, 200 % (top + 1)]), dtype=dt)
    return np.array([rng.choice([0, min(top, 2**50 - 1)]) for _ in range(n)], dtype=np.uint64).astype(dt).reshape(shape)


def run(ctx):
    from neuroglancer_scripts import downscaling
    rng = ctx.rng
    reqs, meta = [], []
    cases = []
    for _ in range(ctx.budget(250, 5000)):
        method = rng.choice(["average", "average", "majority", "stride"])
        dt = rng.choice(["uint8", "uint16", "uint32", "uint64", "float32"])
        if method == "majority" and dt == "float32":
            dt = "uint32"
        C = rng.choice([1, 1, 2, 3])
        shape = (C,) + tuple(rng.choice([1, 1, 2, 3, 4, 5, 6, 7, 8, 9]) for _ in range(3))
        factors = [rng.choice([1, 2]) for _ in range(3)] if method == "average" else \
            [rng.choice([1, 2, 2, 3, 4]) for _ in range(3)]
        outside = rng.choice([None, None, 0, 1, 7, 255, "max", 0.5]) if method == "average" else None
        cases.append((method, dt, shape, factors, outside))
    if ctx.tier == "thorough" or ctx.search_mode:
        for shp in itertools.product(range(1, 5), repeat=3):
            for fac in itertools.product([1, 2], repeat=3):
                cases.append(("average", rng.choice(["uint8", "uint16"]), (1,) + shp, list(fac), rng.choice([None, 0, 255])))
                cases.append(("majority", "uint32", (1,) + shp, [rng.choice([1, 2, 3]) for _ in range(3)], None))
    # always present: more than 65535 distinct labels in one array (label bookkeeping in a narrow type would wrap)
    cases.append(("majority", "uint32", (1, 42, 42, 42), [2, 2, 2], None))
    reused = {}
    for method, dt, shape, factors, outside in cases:
        a = gen_array(rng, dt, shape)
        if shape == (1, 42, 42, 42):
            a = np.random.default_rng(rng.getrandbits(32)).permutation(42 ** 3).astype(dt).reshape(shape)
        if outside == "max":
            outside = float(np.iinfo(dt).max) if dt != "float32" else 3.0e38
        opts = {} if outside is None else {"outside_value": outside}
        desc = {"method": method, "dtype": dt, "shape": list(shape), "factors_xyz": factors,
                "outside_value": outside}
        try:
            # one downscaler object serves all chunks of a pyramid (every shape, every level): objects are reused
            # across cases with the same method and outside value
            # the method is spelled either by name or as the command-line default "auto", which the info's type
            # resolves (image -> average, segmentation -> stride); both spellings take the same options
            spelled = "auto" if method in ("average", "stride") and rng.random() < 0.5 else method
            desc["method_spelling"] = spelled
            ctx.hist("method_spelling", spelled)
            dkey = (method, spelled, str(outside))
            if dkey not in reused:
                if spelled == "auto":
                    reused[dkey] = downscaling.get_downscaler(
                        "auto", {"type": "image" if method == "average" else "segmentation"}, opts)
                else:
                    reused[dkey] = downscaling.get_downscaler(method, info=None, options=opts)
            ds = reused[dkey]
            a_before = a.copy()
            with np.errstate(all="ignore"):
                out = ds.downscale(a, tuple(factors))
            if not np.array_equal(a.view(np.uint8), a_before.view(np.uint8)):
                ctx.oracle_fail("the downscaler modified the chunk it was given", desc)
                a = a_before
        except Exception as exc:  # noqa
            ctx.oracle_fail(f"downscale raised {type(exc).__name__}: {exc}", dict(desc, data=a.ravel().tolist()[:60]))
            continue
        ctx.case((method, dt, shape, tuple(factors), str(outside), a.tobytes()), nontrivial=factors != [1, 1, 1],
                 sample=desc if rng.random() < 0.01 else None)
        ctx.hist("method", method)
        want_shape = (shape[0], -(-shape[1] // factors[2]), -(-shape[2] // factors[1]), -(-shape[3] // factors[0]))
        if out.shape != want_shape or out.dtype != a.dtype:
            ctx.oracle_fail("downscaled array has the wrong shape or data type",
                            dict(desc, got=[list(out.shape), str(out.dtype)], want=[list(want_shape), dt]))
            continue
        big = dt == "uint64" and (int(a.max()) >= 2**53 or (outside is not None and outside >= 2**53))
        for c in range(shape[0]):
            ref = oracle(method, a[c], factors, outside)
            for idx in np.ndindex(*ref.shape):
                got = out[(c,) + idx]
                if method != "average":
                    if got != ref[idx]:
                        ctx.oracle_fail(f"{method} downscaler: output voxel is not the "
                                        + ("block's first voxel" if method == "stride" else
                                           "most frequent label of the block (smallest on ties)"),
                                        dict(desc, channel=c, voxel_zyx=list(idx), got=int(got), want=int(ref[idx]),
                                             data=a[c].ravel().tolist()[:80]))
                        break
                else:
                    mean, lo, hi, narrow = ref[idx]
                    if dt == "float32":
                        if not np.isfinite(got):
                            ctx.oracle_fail("average downscaler (float32): the result overflowed (not finite) although "
                                            "every contributing value is finite",
                                            dict(desc, channel=c, voxel_zyx=list(idx), got=str(got), mean=float(mean)))
                            break
                        g = Fraction(float(got))
                        if narrow:
                            # the float64 work array is exact here: the result must be the exact mean rounded once
                            want_bits = nearest_f32_bits(mean)
                            got_bits = int(np.float32(got).view(np.uint32))
                            if float(got) == 0.0 and mean == 0:
                                got_bits = want_bits
                            if got_bits != want_bits:
                                ctx.oracle_fail("average downscaler (float32): the result is not the exact mean of the "
                                                "block rounded once to float32",
                                                dict(desc, channel=c, voxel_zyx=list(idx), got=float(got), mean=float(mean)))
                                break
                        tol = max(abs(mean), abs(lo), abs(hi)) * Fraction(1, 2**22)
                        if not (lo - tol <= g <= hi + tol) or abs(g - mean) > tol + Fraction(1, 10**40):
                            ctx.oracle_fail("average downscaler (float32): result outside the contributing values "
                                            "or not close to the exact mean",
                                            dict(desc, channel=c, voxel_zyx=list(idx), got=float(got), mean=float(mean)))
                            break
                    else:
                        top = int(np.iinfo(dt).max)
                        want = min(max(rhe(mean), 0), top)
                        if int(got) != want:
                            key = "F6-float-ge-2^64-to-uint64" if big else None
                            ctx.oracle_fail("averaging uint64 values >= 2^53 goes through float64 (inexact / wraps at 2^64)"
                                            if key else "average downscaler: output voxel is not the exact block mean "
                                            "rounded half to even (completed with the edge / outside value)",
                                            dict(desc, channel=c, voxel_zyx=list(idx), got=int(got), want=want,
                                                 data=a[c].ravel().tolist()[:80]), key=key)
                            break
                        if not (lo <= int(got) <= hi) and not big:
                            ctx.oracle_fail("average downscaler: result not between min and max of the contributing values",
                                            dict(desc, channel=c, voxel_zyx=list(idx), got=int(got)))
                            break
            # Lean model (integer data; integer outside value)
            if dt != "float32" and (outside is None or float(outside).is_integer()) and not big:
                o = "none" if outside is None else str(int(outside))
                # selection and options go through the model too (Down.getDownscaler, then Sel.voxel)
                ity = "-" if spelled != "auto" else ("image" if method == "average" else "segmentation")
                reqs.append(f"down-sel {spelled} {ity} {dt} {core.ilist(shape[1:])} {factors[2]},{factors[1]},{factors[0]} {o} "
                            + core.ilist(int(v) for v in a[c].ravel()))
                meta.append((desc, c, core.ilist(out.shape[1:]) + " " + core.ilist(int(v) for v in out[c].ravel())))
    # names the selection does not know: NotImplementedError <-> the model's `none`
    for name in ("nearest", "Average", "", "mean"):
        try:
            downscaling.get_downscaler(name, {"type": "image"}, {})
            got = "accepted"
        except NotImplementedError:
            got = "not-implemented"
        except Exception as exc:  # noqa
            got = type(exc).__name__
        if name:
            reqs.append(f"down-sel {name} image uint8 1,1,1 1,1,1 none 0")
            meta.append(({"method": "selection", "name": name}, 0, got))
        if got != "not-implemented":
            ctx.oracle_fail("an unknown downscaling method name was not refused with NotImplementedError",
                            {"name": name, "got": got})
    if ctx.driver_ok and reqs:
        for rep, (desc, c, want) in zip(core.driver_batch(reqs), meta):
            if rep != want:
                ctx.corr_mismatch("downscale-" + desc["method"], dict(desc, channel=c), want[:200], rep[:200])


def replay(ctx, data):
    run(ctx)
