"""C03 — Writing then reading a chunk returns the same array; off-grid positions are rejected."""
import json
import os
import shutil
import tempfile

import numpy as np

from .. import core, csegen

RULE = ("(a) coordinate fuzz: random infos (sizes 1..130, 1-2 chunk sizes per scale, non-cubic) x sextuples "
        "built per axis from {-cs,-1,0,1,cs-1,cs,cs+1,size-1,size,size+cs,k*cs} x {lo+cs, size, lo+cs±1, lo, "
        "min(lo+cs,size)}: one axis varied exhaustively with the others valid, plus random combinations; "
        "validate_chunk_coords vs Lean validate, and vs the grid-cell predicate; off-grid writes must raise "
        "and store nothing; (b) write/read histories (20-60 ops with overwrites, 1-2 scales) over FileAccessor "
        "(flat/deep x gzip/plain), ShardedFileAccessor and a dict accessor, encodings raw / "
        "compressed_segmentation / jpeg, all data types, 1-3 channels, input arrays little/big endian, "
        "non-contiguous and narrower safe-castable types; read back through the same and a fresh handle. "
        "Trivial = single-chunk scale.")
ASSUMPTIONS = [
    "the accessors behave like a map name -> bytes (C12 for files, C05 for shards)",
    "JPEG error bound |delta| <= 40 at quality >= 90 on smooth images is exploration-level (measured, not proved)",
]


class DictAccessor:
    can_read = can_write = True

    def __init__(self):
        self.files, self.chunks = {}, {}

    def fetch_file(self, p):
        return self.files[p]

    def store_file(self, p, buf, mime_type="", overwrite=False):
        self.files[p] = bytes(buf)

    def file_exists(self, p):
        return p in self.files

    def fetch_chunk(self, key, coords):
        from neuroglancer_scripts.accessor import DataAccessError
        try:
            return self.chunks[(key, tuple(coords))]
        except KeyError:
            raise DataAccessError("missing")

    def store_chunk(self, buf, key, coords, mime_type="", overwrite=True):
        self.chunks[(key, tuple(int(c) for c in coords))] = bytes(buf)

    def close(self):
        pass


def on_grid(size, css, box):
    for cs in css:
        ok = True
        for a in range(3):
            lo, hi = box[2 * a], box[2 * a + 1]
            if not (lo >= 0 and lo % cs[a] == 0 and lo < size[a] and hi == min(lo + cs[a], size[a])):
                ok = False
        if ok:
            return True
    return False


def gen_info(rng, enc=None, sharded=False):
    dt = rng.choice(["uint8", "uint16", "uint32", "uint64", "float32"])
    enc = enc or rng.choice(["raw", "raw", "compressed_segmentation", "jpeg"])
    C = rng.choice([1, 1, 2, 3])
    if enc == "compressed_segmentation":
        dt = rng.choice(["uint32", "uint64"])
    if enc == "jpeg":
        dt, C = "uint8", rng.choice([1, 3])
    scales = []
    # scale keys: plain, nesting as prefixes ("1um" / "10um"), with a dot, with a sub-directory (unsharded only)
    key_style = rng.choice(["s{i}", "1{z}um", "v1.{i}"] + ([] if sharded else ["lvl/{i}"]))
    for i in range(rng.choice([1, 1, 2])):
        size = [rng.randrange(1, 14) for _ in range(3)]
        if sharded:
            c = rng.choice([1, 2, 4, 8])
            css = [[c, c, c]]
        else:
            css = [[rng.choice([1, 2, 3, 4, 5, 8, 16]) for _ in range(3)] for _ in range(rng.choice([1, 1, 2]))]
        sc = {"key": key_style.format(i=i, z="0" * i), "size": size, "chunk_sizes": css, "encoding": enc, "resolution": [1, 1, 1],
              "voxel_offset": [0, 0, 0]}
        if enc == "compressed_segmentation":
            sc["compressed_segmentation_block_size"] = [rng.choice([1, 2, 3, 4, 8]) for _ in range(3)]
        if sharded:
            sc["sharding"] = {"@type": "neuroglancer_uint64_sharded_v1", "minishard_bits": rng.randrange(0, 3),
                              "shard_bits": rng.randrange(0, 3), "hash": "identity",
                              "minishard_index_encoding": rng.choice(["raw", "gzip"]),
                              "data_encoding": rng.choice(["raw", "gzip"]), "preshift_bits": rng.randrange(0, 3)}
        scales.append(sc)
    return {"type": "image" if enc != "compressed_segmentation" else "segmentation", "data_type": dt,
            "num_channels": C, "scales": scales}


def valid_boxes(sc):
    out = []
    for cs in sc["chunk_sizes"]:
        for x in range(0, sc["size"][0], cs[0]):
            for y in range(0, sc["size"][1], cs[1]):
                for z in range(0, sc["size"][2], cs[2]):
                    out.append((x, min(x + cs[0], sc["size"][0]), y, min(y + cs[1], sc["size"][1]),
                                z, min(z + cs[2], sc["size"][2])))
    return out


def run(ctx):
    from neuroglancer_scripts import precomputed_io
    from neuroglancer_scripts.accessor import get_accessor_for_url
    from neuroglancer_scripts.file_accessor import FileAccessor
    from neuroglancer_scripts.sharded_file_accessor import ShardedFileAccessor
    rng = ctx.rng
    # ---- (a) coordinate validation ------------------------------------------------------------------
    reqs, meta = [], []
    for _ in range(ctx.budget(40, 800)):
        size = [rng.randrange(1, 131) for _ in range(3)]
        css = [[rng.choice([1, 2, 3, 7, 16, 32, 64, 100]) for _ in range(3)] for _ in range(rng.choice([1, 2]))]
        info = {"type": "image", "data_type": "uint8", "num_channels": 1,
                "scales": [{"key": "k", "size": size, "chunk_sizes": css, "encoding": "raw",
                            "resolution": [1, 1, 1], "voxel_offset": [0, 0, 0]}]}
        acc = DictAccessor()
        io = precomputed_io.PrecomputedIO(info, acc)
        boxes = []
        cs0 = css[0]

        def axis_pairs(a, cs):
            s = size[a]
            los = [-cs, -1, 0, 1, cs - 1, cs, cs + 1, s - 1, s, s + cs, cs * rng.randrange(0, s // cs + 2),
                   (s // cs) * cs, ((s - 1) // cs) * cs]
            out = []
            for lo in los:
                for hi in (lo + cs, s, lo + cs - 1, lo + cs + 1, lo, min(lo + cs, s), s + 1):
                    out.append((lo, hi))
            return out
        good = [(0, min(cs0[a], size[a])) for a in range(3)]
        for a in range(3):
            for pr in axis_pairs(a, rng.choice(css)[a]):
                b = list(good)
                b[a] = pr
                boxes.append(tuple(v for p in b for v in p))
        for _ in range(60):
            cs = rng.choice(css)
            b = [rng.choice(axis_pairs(a, cs[a])) for a in range(3)]
            boxes.append(tuple(v for p in b for v in p))
        boxes += [rng.choice(valid_boxes(info["scales"][0])) for _ in range(10)]
        # further scales on the SAME handle (a pyramid: sizes halved, other chunk sizes): every tuple is presented to
        # every scale in turn, so that a verdict remembered from one scale cannot leak into another
        scales = [("k", size, css)]
        for j in range(rng.choice([0, 1, 1, 2])):
            sz = [max(1, -(-scales[-1][1][a] // 2)) for a in range(3)]
            cj = [[rng.choice([1, 2, 3, 7, 16, 32, 64, 100]) for _ in range(3)]] if rng.random() < 0.5 else css
            info["scales"].append({"key": f"k{j + 2}", "size": sz, "chunk_sizes": cj, "encoding": "raw",
                                   "resolution": [2 ** (j + 1)] * 3, "voxel_offset": [0, 0, 0]})
            scales.append((f"k{j + 2}", sz, cj))
            boxes += [rng.choice(valid_boxes(info["scales"][-1])) for _ in range(10)]
        if len(scales) > 1:
            io = precomputed_io.PrecomputedIO(info, acc)
        ctx.hist("scales_per_handle", len(scales))
        impl = {k: [] for k, _, _ in scales}
        for b in boxes:
            for key, size_k, css_k in scales:
                try:
                    v = bool(io.validate_chunk_coords(key, b))
                except Exception as exc:  # noqa
                    v = None
                    ctx.oracle_fail(f"validate_chunk_coords raised {type(exc).__name__}",
                                    {"scale": key, "size": size_k, "chunk_sizes": css_k, "coords": b})
                impl[key].append(v)
                want = on_grid(size_k, css_k, b)
                ctx.case(("coords", key, tuple(size_k), json.dumps(css_k), b), nontrivial=True,
                         sample={"size": size_k, "chunk_sizes": css_k, "coords": b, "accepted": v} if rng.random() < 0.0005 else None)
                if v is not None and v != want:
                    ctx.oracle_fail("validate_chunk_coords " + ("accepts a position that is not a cell of the chunk grid"
                                                                 if v else "rejects a cell of the chunk grid"),
                                    {"scale": key, "scales_on_handle": [list(x) for x in scales], "size": size_k,
                                     "chunk_sizes": css_k, "coords": list(b)})
                if not want:
                    before = dict(acc.chunks)
                    try:
                        io.write_chunk(np.zeros((1, max(1, b[5] - b[4]), max(1, b[3] - b[2]), max(1, b[1] - b[0])), dtype="uint8"), key, b)
                        stored = True
                    except AssertionError:
                        stored = False
                    except Exception:  # noqa
                        stored = False
                    if stored or acc.chunks != before:
                        ctx.oracle_fail("a chunk position that is not on the chunk grid was stored instead of rejected",
                                        {"scale": key, "scales_on_handle": [list(x) for x in scales], "size": size_k,
                                         "chunk_sizes": css_k, "coords": list(b)})
                        acc.chunks = before
        for key, size_k, css_k in scales:
            reqs.append(f"coords-validate {core.ilist(size_k)} " + "/".join(core.ilist(c) for c in css_k) + " "
                        + "/".join(core.ilist(b) for b in boxes))
            meta.append(({"scale": key, "size": size_k, "chunk_sizes": css_k}, boxes,
                         "".join("?" if v is None else str(int(v)) for v in impl[key])))
    if ctx.driver_ok:
        for rep, (d, boxes, want) in zip(core.driver_batch(reqs), meta):
            if rep != want:
                i = next(i for i in range(len(want)) if i >= len(rep) or rep[i] != want[i])
                ctx.corr_mismatch("validate_chunk_coords", dict(d, coords=list(boxes[i])), want[i], rep[i:i + 1])
    # ---- (a') encoder selection: EVERY combination of the finite request space ------------------------------
    from neuroglancer_scripts import chunk_encoding
    ereqs, emeta = [], []
    for dt in ["uint8", "uint16", "uint32", "uint64", "float32", "int8", "int32", "float64", "bool", "-"]:
        for nc in [-1, 0, 1, 2, 3, 4, "x", "-"]:
            for enc in ["raw", "compressed_segmentation", "jpeg", "png", "RAW", "-"]:
                for blk in (0, 1):
                    info = {"type": "image"}
                    sc = {"key": "k", "size": [4, 4, 4], "chunk_sizes": [[4, 4, 4]], "resolution": [1, 1, 1]}
                    if dt != "-":
                        info["data_type"] = dt
                    if nc != "-":
                        info["num_channels"] = 1.5 if nc == "x" else nc
                    if enc != "-":
                        sc["encoding"] = enc
                    if blk:
                        sc["compressed_segmentation_block_size"] = [8, 8, 8]
                    try:
                        e = chunk_encoding.get_encoder(info, sc)
                        got = {"RawChunkEncoder": "raw", "CompressedSegmentationEncoder": "compressed_segmentation",
                               "JpegChunkEncoder": "jpeg"}.get(type(e).__name__, type(e).__name__)
                    except chunk_encoding.InvalidInfoError:
                        got = "InvalidInfoError"
                    except Exception as exc:  # noqa
                        got = "!" + type(exc).__name__
                        ctx.oracle_fail(f"get_encoder raised {type(exc).__name__} instead of InvalidInfoError",
                                        {"data_type": dt, "num_channels": nc, "encoding": enc, "block_size": bool(blk)})
                    d = {"data_type": dt, "num_channels": nc, "encoding": enc, "block_size": bool(blk)}
                    ctx.case(("get_encoder", dt, nc, enc, blk))
                    if got in ("raw", "compressed_segmentation", "jpeg") and got != enc:
                        ctx.oracle_fail("get_encoder returned a codec other than the one the scale names", dict(d, got=got))
                    ereqs.append(f"get-encoder {dt} {'x' if nc == 'x' else nc} {enc} {blk}")
                    emeta.append((d, got))
    if ctx.driver_ok:
        for rep, (d, got) in zip(core.driver_batch(ereqs), emeta):
            if rep != got:
                ctx.corr_mismatch("get-encoder", d, got, rep)
    # ---- (b) write / read histories ---------------------------------------------------------------------
    hreqs, hmeta = [], []
    for _ in range(ctx.budget(40, 700)):
        kind = rng.choice(["file", "file", "dict", "sharded"])
        info = gen_info(rng, sharded=kind == "sharded",
                        enc=rng.choice(["raw", "compressed_segmentation"]) if kind == "sharded" else None)
        enc = info["scales"][0]["encoding"]
        dt = info["data_type"]
        C = info["num_channels"]
        tmp = tempfile.mkdtemp(prefix="ngv_c03_")
        try:
            opts = {"flat": rng.random() < 0.5, "gzip": rng.random() < 0.5}
            if kind == "file":
                acc = FileAccessor(tmp, **opts)
            elif kind == "dict":
                acc = DictAccessor()
            else:
                acc = ShardedFileAccessor(tmp)
            try:
                io = precomputed_io.get_IO_for_new_dataset(info, acc, overwrite_info=True,
                                                           encoder_options={"jpeg_quality": 95})
            except Exception as exc:  # noqa
                ctx.oracle_fail(f"opening a new dataset raised {type(exc).__name__}: {exc}", {"info": info})
                continue
            truth = {}
            ops = []
            allb = [(sc["key"], b) for sc in info["scales"] for b in valid_boxes(sc)]
            n_ops = rng.randrange(5, 40)
            if kind == "sharded":
                # a shard cannot be rewritten after close: write each chunk once, in random order
                todo = rng.sample(allb, min(len(allb), n_ops))
            else:
                todo = [rng.choice(allb) for _ in range(n_ops)]
            for key, b in todo:
                shape = (C, b[5] - b[4], b[3] - b[2], b[1] - b[0])
                nr = np.random.default_rng(rng.getrandbits(32))
                if enc == "jpeg":
                    zz, yy, xx = np.meshgrid(np.arange(shape[1]), np.arange(shape[2]), np.arange(shape[3]), indexing="ij")
                    a = np.stack([(40 + 10 * c + 3 * zz + 2 * yy + xx) % 256 for c in range(C)]).astype("uint8")
                elif dt == "float32":
                    a = nr.standard_normal(shape).astype("float32")
                else:
                    top = np.iinfo(dt).max
                    a = nr.integers(0, min(top, 2**63 - 1), size=shape, dtype=np.uint64).astype(dt) \
                        if rng.random() < 0.5 else nr.integers(0, 5, size=shape).astype(dt)
                    if rng.random() < 0.2:
                        a.reshape(-1)[0] = top
                    if rng.random() < 0.2:
                        # voxel bytes that START like another format (gzip, zlib, JPEG, PNG magic numbers): a raw chunk is
                        # whatever its voxels are - nothing may sniff its content
                        magic = rng.choice([b"\x1f\x8b\x08\x00", b"\x78\x9c", b"\xff\xd8\xff\xe0", b"\x89PNG", b"\x1f\x8b"])
                        flat = np.ascontiguousarray(a).view(np.uint8).reshape(-1)
                        flat[:min(len(magic), flat.size)] = np.frombuffer(magic, dtype=np.uint8)[:flat.size]
                        a = flat.view(a.dtype).reshape(a.shape)
                # presentation of the array: byte order, contiguity, narrower safe type
                how = rng.choice(["plain", "big-endian", "strided", "fortran", "narrow", "unsafe"])
                if how == "unsafe" and enc != "jpeg" and dt != "float32":
                    # a chunk of a type that cannot be cast safely to the dataset's (float64 with fractions, large and
                    # small): it is either refused, or - if accepted - what is read back is exactly what was given
                    bad = a.astype("float64") % 300000 + rng.choice([0.25, 0.5, 1e-3])
                    before_truth = truth.get((key, b))
                    try:
                        io.write_chunk(bad, key, b)
                        accepted = True
                    except Exception:  # noqa (TypeError / AssertionError: refused)
                        accepted = False
                    ctx.hist("unsafe_chunk", "accepted" if accepted else "refused")
                    if accepted:
                        try:
                            got = io.read_chunk(key, b) if kind != "sharded" else None
                        except Exception:  # noqa
                            got = None
                        if got is not None and not np.array_equal(got.astype("float64"), bad):
                            ctx.oracle_fail("write_chunk accepted a chunk that read_chunk returns with other values "
                                            "(a lossy cast instead of a refusal)",
                                            {"info": info, "accessor": kind, "key": key, "coords": list(b),
                                             "written": bad.ravel().tolist()[:8], "got": got.ravel().tolist()[:8]})
                        truth.pop((key, b), None)
                        if kind == "sharded":
                            continue
                    elif before_truth is None:
                        truth.pop((key, b), None)
                    how = "plain"
                arr = a
                if how == "big-endian" and enc != "jpeg":
                    arr = a.astype(a.dtype.newbyteorder(">"))
                elif how == "strided":
                    big = np.zeros(tuple(2 * s for s in shape), dtype=a.dtype)
                    big[::2, ::2, ::2, ::2] = a
                    arr = big[::2, ::2, ::2, ::2]
                elif how == "fortran":
                    arr = np.asfortranarray(a)
                elif how == "narrow" and dt in ("uint16", "uint32", "uint64") and enc == "raw":
                    a = (a % 200).astype(dt)
                    arr = a.astype("uint8")
                ctx.hist("array_presentation", how)
                try:
                    io.write_chunk(arr, key, b)
                    truth[(key, b)] = a
                    ops.append(("w", key, b, a))
                except Exception as exc:  # noqa
                    ctx.oracle_fail(f"write_chunk raised {type(exc).__name__}: {exc}",
                                    {"info": info, "accessor": kind, "options": opts, "key": key, "coords": list(b),
                                     "array": how})
                    continue
                # read back through the SAME handle in the middle of the history (read - overwrite - read sequences on one
                # position arise because positions repeat): the latest write must be seen at once
                if kind != "sharded" and rng.random() < 0.5:
                    d = {"info": info, "accessor": kind, "options": opts, "reader": "same handle, mid-history",
                         "key": key, "coords": list(b), "writes_so_far": len(ops)}
                    try:
                        got = io.read_chunk(key, b)
                    except Exception as exc:  # noqa
                        ctx.oracle_fail(f"read_chunk right after write_chunk raised {type(exc).__name__}: {exc}", d)
                        continue
                    ctx.bump("mid_history_reads")
                    if enc == "jpeg":
                        if got.shape != a.shape or int(np.max(np.abs(got.astype(int) - a.astype(int)))) > 40:
                            ctx.oracle_fail("JPEG chunk read right after it was written is not the chunk written", d)
                    elif got.shape != a.shape or not np.array_equal(got.view(np.uint8) if dt == "float32" else got,
                                                                    a.view(np.uint8) if dt == "float32" else a):
                        ctx.oracle_fail("a chunk read right after it was (over)written is not the latest chunk written",
                                        dict(d, written=a.ravel().tolist()[:20], got=got.ravel().tolist()[:20]))
            if kind == "sharded":
                try:
                    acc.close()
                except Exception as exc:  # noqa
                    ctx.oracle_fail(f"closing the sharded dataset raised {type(exc).__name__}: {exc}",
                                    {"info": info, "accessor": kind})
                    acc.shard_dict.clear()   # nothing more to flush at interpreter exit
                    continue
            readers = [("same", io)]
            if kind != "dict":
                try:
                    fresh = get_accessor_for_url(tmp, opts)
                    readers.append(("fresh", precomputed_io.get_IO_for_existing_dataset(fresh)))
                except Exception as exc:  # noqa
                    ctx.oracle_fail(f"re-opening the dataset raised {type(exc).__name__}: {exc}", {"info": info, "accessor": kind})
            if kind == "sharded":
                readers = readers[1:]
            for rname, rio in readers:
                for (key, b), a in truth.items():
                    d = {"info": info, "accessor": kind, "options": opts, "reader": rname, "key": key, "coords": list(b)}
                    try:
                        got = rio.read_chunk(key, b)
                    except Exception as exc:  # noqa
                        ctx.oracle_fail(f"read_chunk of a written chunk raised {type(exc).__name__}: {exc}", d)
                        continue
                    if got.shape != a.shape or got.dtype.newbyteorder("=") != a.dtype.newbyteorder("="):
                        ctx.oracle_fail("chunk read back with a different shape or data type",
                                        dict(d, got=[list(got.shape), str(got.dtype)], want=[list(a.shape), str(a.dtype)]))
                    elif enc == "jpeg":
                        err = int(np.max(np.abs(got.astype(int) - a.astype(int))))
                        ctx.stats["jpeg_max_abs_error"] = max(ctx.stats.get("jpeg_max_abs_error", 0), err)
                        if err > 40:
                            ctx.oracle_fail("JPEG round trip error is not small", dict(d, max_abs_error=err))
                    elif not np.array_equal(got.view(np.uint8) if dt == "float32" else got,
                                            a.view(np.uint8) if dt == "float32" else a):
                        ctx.oracle_fail("chunk read back differs from the chunk written (lossless encoding)",
                                        dict(d, written=a.ravel().tolist()[:40], got=got.ravel().tolist()[:40]))
            ctx.case(("hist", json.dumps(info, sort_keys=True), kind, json.dumps(opts), len(ops)),
                     nontrivial=len(allb) > 1,
                     sample={"info": info, "accessor": kind, "options": opts, "writes": len(ops)} if rng.random() < 0.05 else None)
            ctx.hist("encoding", enc)
            ctx.hist("accessor", kind)
            # Lean history model (raw codec, single scale, integer types)
            if enc == "raw" and dt != "float32" and len(info["scales"]) == 1 and kind != "sharded":
                sc = info["scales"][0]
                isz = np.dtype(dt).itemsize
                lops, want = [], []
                for (_, key, b, a) in ops:
                    lops.append(f"w|{core.ilist(b)}|{core.ilist(int(v) for v in a.ravel())}")
                    want.append("ok")
                for (key, b), a in truth.items():
                    lops.append(f"r|{core.ilist(b)}")
                    want.append(core.ilist(int(v) for v in a.ravel()))
                if lops:
                    hreqs.append(f"io-history {isz} {core.ilist(sc['size'])} "
                                 + "/".join(core.ilist(c) for c in sc["chunk_sizes"]) + " " + ";".join(lops))
                    hmeta.append(({"info": info}, ";".join(want)))
        finally:
            shutil.rmtree(tmp, ignore_errors=True)
    if ctx.driver_ok and hreqs:
        for rep, (d, want) in zip(core.driver_batch(hreqs), hmeta):
            if rep != want:
                ctx.corr_mismatch("io-history", d, want[:300], rep[:300])


def replay(ctx, data):
    run(ctx)
