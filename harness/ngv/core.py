"""Core of the check runner: build, audit, driver client, verdict protocol, evidence.

Verdict protocol (DESIGN.md §3.3):
  1. oracle failure on the real code            -> VIOLATION with the failing input as replay
  2. tie broken (tables / lake build / axiom audit / model != impl) and no oracle failure
        -> focused search on the real code; if still nothing:
           VIOLATION ... no-failing-input-found, replay names the theorem / correspondence
  3. otherwise exit 0.
Known findings (known_findings.json) are matched on their recorded key.
"""
import fcntl
import hashlib
import json
import os
import random
import re
import subprocess
import sys
import time

from . import paths, tables

ALLOWED_AXIOMS = {"propext", "Classical.choice", "Quot.sound"}
FORBIDDEN = re.compile(
    r"\bsorry\b|\badmit\b|^\s*axiom\s|native_decide|bv_decide|implemented_by|\bunsafe\s|maxHeartbeats\s+0\b")


QUICK_SCALE = {"C01": 12, "C02": 5, "C03": 6, "C04": 30, "C05": 25, "C06": 12, "C07": 30, "C08": 25, "C09": 25,
               "C10": 12, "C12": 8, "C15": 6, "C16": 10, "C17": 25, "C20": 15}


def now():
    return time.time()


class Ctx:
    def __init__(self, prop, tier, seed):
        self.prop = prop
        self.tier = tier
        self.seed = seed
        self.rng = random.Random(seed * 1000003 + int(prop[1:]))
        self.t0 = now()
        self.oracle_failures = []
        self.corr_mismatches = []
        self.tie_breaks = []
        self.known_hits = []
        self.samples = []
        self.evaluations = 0
        self._distinct = set()
        self.stats = {}
        self.assumptions = []
        self.theorems = []
        self.axioms = {}
        self.obligations = 0
        self.discharged = 0
        self.driver_ok = False
        self.notes = []
        self.search_mode = False
        self.known = load_known(prop)

    # ---- bookkeeping -----------------------------------------------------------------
    def case(self, key, nontrivial=True, sample=None):
        """Count one evaluated case; `key` identifies it for the distinct count."""
        self.evaluations += 1
        if nontrivial:
            h = hashlib.sha1(repr(key).encode()).digest()[:10]
            self._distinct.add(h)
        if sample is not None and len(self.samples) < 5:
            self.samples.append(sample)

    def bump(self, name, k=1):
        self.stats[name] = self.stats.get(name, 0) + k

    def hist(self, name, value):
        d = self.stats.setdefault(name, {})
        value = str(value)
        d[value] = d.get(value, 0) + 1

    def oracle_fail(self, what, inp, detail=None, key=None):
        """The property's own predicate failed on the REAL code."""
        if key is not None and key in self.known:
            if key not in [k for k, _ in self.known_hits]:
                self.known_hits.append((key, what))
            return
        if len(self.oracle_failures) < 50:
            self.oracle_failures.append({"what": what, "input": inp, "detail": detail, "key": key})

    def corr_mismatch(self, name, inp, impl, model):
        """Model and implementation disagree (tie broken, not by itself a violation)."""
        if len(self.corr_mismatches) < 50:
            self.corr_mismatches.append({"corr": name, "input": inp, "impl": impl, "model": model})

    def budget(self, quick, thorough):
        # quick-tier multipliers measured so that each quick check takes roughly 20-40 s of harness time
        q = quick * QUICK_SCALE.get(self.prop, 1)
        n = q if self.tier == "quick" else max(thorough, 5 * q)
        if self.search_mode:
            n *= 10
        return n


# ---- known findings ----------------------------------------------------------------------
def load_known(prop):
    try:
        with open(paths.KNOWN_FINDINGS) as f:
            data = json.load(f)
    except FileNotFoundError:
        return {}
    out = {}
    for e in data.get("findings", []):
        if e.get("property") == prop and e.get("status") == "known":
            out[e["key"]] = e
    return out


# ---- build / audit -------------------------------------------------------------------------
class BuildLock:
    def __enter__(self):
        os.makedirs(os.path.join(paths.LEAN, ".lake"), exist_ok=True)
        self.f = open(os.path.join(paths.LEAN, ".lake", "ngv-build.lock"), "w")
        fcntl.flock(self.f, fcntl.LOCK_EX)
        return self

    def __exit__(self, *a):
        fcntl.flock(self.f, fcntl.LOCK_UN)
        self.f.close()


def lake_build(targets, timeout=3000):
    env = dict(os.environ)
    p = subprocess.run(["lake", "build"] + targets, cwd=paths.LEAN, env=env,
                       stdout=subprocess.PIPE, stderr=subprocess.STDOUT, text=True, timeout=timeout)
    return p.returncode, p.stdout


def first_errors(out, n=12):
    lines = [ln for ln in out.splitlines() if not ln.startswith("trace:")]
    errs = [i for i, ln in enumerate(lines) if ln.startswith("error:")]
    if not errs:
        return "\n".join(lines[-n:])
    i = errs[0]
    return "\n".join(lines[i:i + n])


def props_file(prop):
    return os.path.join(paths.LEAN, "NgVerif", "Props", prop + ".lean")


def import_closure(prop):
    """Lean source files (within NgVerif) transitively imported by Props/<prop>.lean."""
    seen, todo = [], [props_file(prop)]
    while todo:
        f = todo.pop()
        if f in seen or not os.path.exists(f):
            continue
        seen.append(f)
        with open(f) as fh:
            for ln in fh:
                m = re.match(r"\s*import\s+(NgVerif\.[\w.]+)", ln)
                if m:
                    todo.append(os.path.join(paths.LEAN, *m.group(1).split(".")) + ".lean")
    return seen


def strip_comments(text):
    text = re.sub(r"/-.*?-/", "", text, flags=re.S)
    return re.sub(r"--.*", "", text)


def theorem_names(path, namespace_prefix=None):
    with open(path) as f:
        text = strip_comments(f.read())
    return re.findall(r"^\s*(?:private\s+|protected\s+)?theorem\s+([\w.']+)", text, flags=re.M)


def audit(ctx):
    """grep for forbidden constructs and `#print axioms` for every property theorem."""
    files = import_closure(ctx.prop)
    for f in files:
        with open(f) as fh:
            text = strip_comments(fh.read())
        for ln in text.splitlines():
            if FORBIDDEN.search(ln):
                ctx.tie_breaks.append(f"audit:forbidden construct in {os.path.relpath(f, paths.LEAN)}: {ln.strip()[:80]}")
    names = theorem_names(props_file(ctx.prop))
    ctx.theorems = [f"NgVerif.Props.{ctx.prop}.{n}" for n in names]
    n_lemmas = 0
    for f in files:
        if f != props_file(ctx.prop):
            n_lemmas += len(theorem_names(f))
    ctx.obligations = len(names) + n_lemmas
    if not names:
        ctx.tie_breaks.append(f"audit:no theorem found in Props/{ctx.prop}.lean")
        return
    adir = os.path.join(paths.LEAN, ".lake", "audit")
    os.makedirs(adir, exist_ok=True)
    afile = os.path.join(adir, f"Audit{ctx.prop}_{os.getpid()}.lean")
    with open(os.path.join(os.path.dirname(os.path.abspath(__file__)), "linkage.lean.tmpl")) as fh:
        link_src = fh.read().replace("@PROP@", ctx.prop) if ctx.driver_ok else f"import NgVerif.Props.{ctx.prop}\n"
    with open(afile, "w") as fh:
        fh.write(link_src + "\n")
        for t in ctx.theorems:
            fh.write(f"#print axioms {t}\n")
    try:
        p = subprocess.run(["lake", "env", "lean", afile], cwd=paths.LEAN, stdout=subprocess.PIPE,
                           stderr=subprocess.STDOUT, text=True, timeout=1200)
    finally:
        try:
            os.unlink(afile)
        except OSError:
            pass
    out = p.stdout
    ok = 0
    for t in ctx.theorems:
        m = re.search(r"'" + re.escape(t) + r"' (depends on axioms: \[([^\]]*)\]|does not depend on any axioms)",
                      out, flags=re.S)
        if not m:
            ctx.tie_breaks.append(f"audit:theorem {t} not reported by #print axioms")
            continue
        axs = set(a.strip() for a in (m.group(2) or "").replace("\n", " ").split(",") if a.strip())
        ctx.axioms[t] = sorted(axs)
        bad = axs - ALLOWED_AXIOMS
        if bad:
            ctx.tie_breaks.append(f"audit:theorem {t} depends on non-standard axioms {sorted(bad)}")
        else:
            ok += 1
    if p.returncode != 0 and ok < len(ctx.theorems):
        ctx.tie_breaks.append("audit:lean failed: " + first_errors(out, 6))
    if ctx.driver_ok:
        linkage_audit(ctx, out)
    ctx.discharged = ok + n_lemmas if ok == len(ctx.theorems) else ok


def linkage_audit(ctx, out):
    """Theorem <-> driver linkage: every model definition a property theorem is stated over must be one the compiled
    driver executes (so that the correspondence run ties it to the code), or be listed in lean/linkage.json as a
    specification-side definition; a theorem that mentions no executed model definition must be listed there as a
    purely mathematical statement, with the reason."""
    try:
        with open(os.path.join(paths.LEAN, "linkage.json")) as f:
            policy = json.load(f)
    except (OSError, ValueError) as exc:
        ctx.tie_breaks.append(f"linkage:lean/linkage.json unreadable: {exc}")
        return
    spec_only = policy.get("spec_only", {})
    enforced = ctx.prop in policy.get("enforced_properties", [])
    breaks = ctx.tie_breaks if enforced else ctx.notes
    pure = policy.get("pure_math_theorems", {})
    link = {}
    for m in re.finditer(r"^LINK (\S+) exec=(.*?) \| notexec=(.*)$", out, flags=re.M):
        link[m.group(1)] = (m.group(2).split(), m.group(3).split())
    rep = {}
    for t in ctx.theorems:
        if t not in link:
            breaks.append(f"linkage:theorem {t} not reported by the linkage audit")
            continue
        ex, ne = link[t]
        # NgVerif.Generated.* is rewritten from the source on every run: its tie is the table extractor
        stray = [d for d in ne if d not in spec_only and not d.startswith("NgVerif.Generated.")]
        for d in stray:
            breaks.append(f"linkage:theorem {t} is stated over model definition {d}, which the driver never "
                                  f"executes and lean/linkage.json does not list as specification-side")
        # definitions translated from the source (Generated.Src) are tied by the translator, like executed ones
        code_side = [d for d in ex if not d.startswith("NgVerif.Generated.")] + \
            [d for d in ne if d.startswith("NgVerif.Generated.Src.")]
        if not code_side and t not in pure:
            breaks.append(f"linkage:theorem {t} mentions no model definition executed by the driver and is not "
                                  f"listed as a purely mathematical statement")
        rep[t.split(".", 3)[-1]] = {"executed_by_driver": len(ex), "specification_side": ne,
                                    **({"pure_math": pure[t]} if t in pure and not code_side else {})}
    ctx.stats["theorem_driver_linkage"] = rep


def prepare(ctx):
    """Regenerate tables, build the driver and the property's theorems, audit axioms."""
    with BuildLock():
        try:
            changed, _ = tables.regenerate()
            if changed:
                ctx.notes.append("Generated/Tables.lean rewritten from the source")
            for lapse in tables.LAPSES:
                ctx.notes.append("tables: " + lapse)
        except tables.TableError as exc:
            ctx.tie_breaks.append(f"tables:{exc}")
        try:
            from . import translate
            changed, _ = translate.regenerate()
            if changed:
                ctx.notes.append("Generated/Exprs.lean re-translated from the source")
            ctx.stats["translated_source"] = dict(translate.STATUS)
            for name, st in translate.STATUS.items():
                if st.startswith("NOT"):
                    ctx.notes.append(f"translator: {name}: {st}")
        except tables.TableError as exc:
            ctx.tie_breaks.append(f"translate:{exc}")
        rc, out = lake_build(["ngdriver"])
        ctx.driver_ok = rc == 0 and os.path.exists(paths.DRIVER)
        if not ctx.driver_ok:
            ctx.tie_breaks.append("build:ngdriver: " + first_errors(out))
        rc, out = lake_build([f"NgVerif.Props.{ctx.prop}"])
        if rc != 0:
            m = re.search(r"error: (NgVerif/[\w/]+\.lean):(\d+)", out)
            where = f"{m.group(1)}:{m.group(2)}" if m else "?"
            ctx.tie_breaks.append(f"build:NgVerif.Props.{ctx.prop} no longer checks ({where}): "
                                  + first_errors(out))
            ctx.theorems = [f"NgVerif.Props.{ctx.prop}.{n}" for n in theorem_names(props_file(ctx.prop))]
            ctx.obligations = max(1, len(ctx.theorems))
            ctx.discharged = 0
        else:
            audit(ctx)
        if ctx.tier == "thorough" and rc == 0:
            t = now()
            p = subprocess.run(["lake", "env", "leanchecker", f"NgVerif.Props.{ctx.prop}"], cwd=paths.LEAN,
                               stdout=subprocess.PIPE, stderr=subprocess.STDOUT, text=True, timeout=3000)
            ctx.stats["leanchecker_s"] = round(now() - t, 1)
            if p.returncode != 0:
                ctx.tie_breaks.append("leanchecker: " + p.stdout[-400:])
            else:
                ctx.notes.append("leanchecker re-checked the compiled Props module")


# ---- driver client ---------------------------------------------------------------------------
class DriverError(Exception):
    pass


def _limit_driver():
    import resource
    resource.setrlimit(resource.RLIMIT_AS, (12 * 2**30, 12 * 2**30))


DRIVER_COMMANDS = {}


def driver_batch(lines, timeout=900):
    """Send all request lines to ngdriver, return the reply lines (same length)."""
    if not lines:
        return []
    for ln in lines:
        c = ln.split(" ", 1)[0]
        DRIVER_COMMANDS[c] = DRIVER_COMMANDS.get(c, 0) + 1
    data = ("\n".join(lines) + "\n").encode()
    try:
        p = subprocess.run([paths.DRIVER], input=data, stdout=subprocess.PIPE, stderr=subprocess.PIPE,
                           timeout=timeout, preexec_fn=_limit_driver)
    except subprocess.TimeoutExpired as exc:
        raise DriverError(f"ngdriver timed out after {timeout}s on {len(lines)} requests") from exc
    out = p.stdout.decode().split("\n")
    if out and out[-1] == "":
        out.pop()
    if p.returncode != 0 or len(out) != len(lines):
        raise DriverError(f"ngdriver rc={p.returncode} replies={len(out)}/{len(lines)} "
                          f"stderr={p.stderr.decode()[-300:]}")
    return out


def hexs(b):
    b = bytes(b)
    return b.hex() if b else "-"


def unhex(s):
    return b"" if s == "-" else bytes.fromhex(s)


def ilist(l):
    l = list(l)
    return ",".join(str(int(x)) for x in l) if l else "-"


def parse_ilist(s):
    return [] if s == "-" else [int(x) for x in s.split(",")]


# ---- verdict / evidence ------------------------------------------------------------------------
def write_replay(ctx, payload):
    os.makedirs(paths.REPLAYS, exist_ok=True)
    name = f"{ctx.prop}-{ctx.tier}-seed{ctx.seed}-{int(now())}-{os.getpid()}.json"
    path = os.path.join(paths.REPLAYS, name)
    payload = dict(payload)
    payload.update({"property": ctx.prop, "tier": ctx.tier, "seed": ctx.seed,
                    "replay_cmd": f"./check {ctx.prop} --replay replays/{name}"})
    with open(path, "w") as f:
        json.dump(payload, f, indent=1, default=str)
    return os.path.relpath(path, paths.VERIF)


def write_evidence(ctx, violations, extra_cov=None):
    os.makedirs(paths.EVIDENCE, exist_ok=True)
    axioms_used = sorted({a for axs in ctx.axioms.values() for a in axs})
    cov = {
        "obligations": max(1, ctx.obligations),
        "discharged": ctx.discharged,
        "checker_cmd": f"cd lean && lake build NgVerif.Props.{ctx.prop} && lake env lean <#print axioms of each theorem>"
                       + (" && lake env leanchecker NgVerif.Props." + ctx.prop if ctx.tier == "thorough" else ""),
        "trusted_base": [
            "Lean 4.33.0 kernel" + (" + leanchecker re-check" if ctx.tier == "thorough" else ""),
            "axioms: " + (", ".join(axioms_used) if axioms_used else "none"),
            "hand-written Lean model tied to /repo by differential correspondence run (sampling) "
            "and regenerated constant tables (harness/ngv/tables.py)",
            "compiled ngdriver executes the model definitions",
        ],
        "theorems": ctx.theorems,
        "axioms_per_theorem": ctx.axioms,
        "evaluations": ctx.evaluations,
        "distinct_nontrivial": len(ctx._distinct),
        "rule": getattr(ctx, "rule", ""),
        "samples": ctx.samples[:5] if ctx.samples else ["(no correspondence case was run)"],
        "traces_validated_against_impl": ctx.evaluations,
        "correspondence_mismatches": len(ctx.corr_mismatches),
        "oracle_failures": len(ctx.oracle_failures),
        "tie_breaks": ctx.tie_breaks,
        "known_findings_hit": [k for k, _ in ctx.known_hits],
        "stats": ctx.stats,
        "notes": ctx.notes,
    }
    if extra_cov:
        cov.update(extra_cov)
    ev = {
        "property_id": ctx.prop,
        "tier": ctx.tier,
        "seed": ctx.seed,
        "level": "proof",
        "coverage": cov,
        "assumptions": ctx.assumptions,
        "wall_s": round(now() - ctx.t0, 2),
        "violations": violations,
    }
    path = os.path.join(paths.EVIDENCE, ctx.prop + ".json")
    tmp = path + ".tmp%d" % os.getpid()
    with open(tmp, "w") as f:
        json.dump(ev, f, indent=1, default=str)
    os.replace(tmp, path)


def assert_repo_import():
    sys.path.insert(0, paths.REPO_SRC)
    # commands started as subprocesses must import the same source tree as the in-process runs
    os.environ["PYTHONPATH"] = paths.REPO_SRC + (os.pathsep + os.environ["PYTHONPATH"] if os.environ.get("PYTHONPATH") else "")
    os.environ[paths.GUARD] = "1"
    os.environ["TQDM_DISABLE"] = "1"
    import logging
    import warnings
    logging.disable(logging.CRITICAL)
    warnings.filterwarnings("ignore")
    import neuroglancer_scripts
    here = os.path.realpath(neuroglancer_scripts.__file__)
    if not here.startswith(os.path.realpath(paths.REPO_SRC) + os.sep):
        raise RuntimeError(f"neuroglancer_scripts imported from {here}, not from {paths.REPO_SRC}")


def anchor_files(prop):
    """source files the property is anchored in (properties.jsonl)"""
    try:
        with open(os.path.join(paths.VERIF, "properties.jsonl")) as f:
            for line in f:
                d = json.loads(line)
                if d.get("id") == prop:
                    return [os.path.join(paths.REPO, p) for p in d["anchors"]["files"]]
    except (OSError, KeyError, ValueError):
        pass
    return []


def start_anchor_coverage(ctx):
    """thorough tier: measure which lines of the anchored files the generated cases execute (in-process only)"""
    if ctx.tier != "thorough" or os.environ.get("NGV_NO_COVERAGE"):
        return None
    files = [p for p in anchor_files(ctx.prop) if os.path.isfile(p)]
    if not files:
        return None
    try:
        import coverage
        cov = coverage.Coverage(data_file=None, include=files, branch=False)
        cov.start()
        return cov, files
    except Exception as exc:  # noqa
        ctx.notes.append(f"coverage measurement unavailable: {type(exc).__name__}")
        return None


def stop_anchor_coverage(ctx, handle):
    if handle is None:
        return
    cov, files = handle
    try:
        cov.stop()
        out = {}
        for p in files:
            try:
                _, statements, _, missing, _ = cov.analysis2(p)
            except Exception:  # noqa
                continue
            n = len(statements)
            if n:
                out[os.path.relpath(p, paths.REPO)] = "%.1f%% (%d of %d statements; in-process runs only)" % (
                    100.0 * (n - len(missing)) / n, n - len(missing), n)
        if out:
            ctx.stats["anchor_line_coverage"] = out
    except Exception as exc:  # noqa
        ctx.notes.append(f"coverage measurement failed: {type(exc).__name__}")


def run_check(prop, tier, seed, module, replay=None):
    ctx = Ctx(prop, tier, seed)
    ctx.rule = getattr(module, "RULE", "")
    ctx.assumptions = list(getattr(module, "ASSUMPTIONS", []))
    assert_repo_import()
    prepare(ctx)
    if replay is not None:
        with open(replay) as f:
            data = json.load(f)
        module.replay(ctx, data)
    else:
        import contextlib
        import io as _io
        cov = start_anchor_coverage(ctx)
        try:
            with contextlib.redirect_stdout(_io.StringIO()):   # the package prints progress notes
                module.run(ctx)
        except DriverError as exc:
            ctx.tie_breaks.append(f"driver:{exc}")
        finally:
            stop_anchor_coverage(ctx, cov)
        # tie broken, no oracle failure yet: focused search on the real code
        if (ctx.tie_breaks or ctx.corr_mismatches) and not ctx.oracle_failures:
            ctx.search_mode = True
            ctx.notes.append("tie broken; ran the focused search for a failing input (10x budget)")
            try:
                with contextlib.redirect_stdout(_io.StringIO()):
                    module.run(ctx)
            except DriverError as exc:
                ctx.tie_breaks.append(f"driver(search):{exc}")
    # which model entry points the correspondence run really exercised (requests per driver command); a command the
    # property's policy expects (lean/linkage.json) and that was never sent means a tie that silently lapsed
    ctx.stats["driver_requests_by_command"] = dict(sorted(DRIVER_COMMANDS.items()))
    if replay is None and ctx.driver_ok:
        try:
            with open(os.path.join(paths.LEAN, "linkage.json")) as f:
                expected = json.load(f).get("expected_commands", {}).get(prop, [])
        except (OSError, ValueError):
            expected = []
        for c in expected:
            if not DRIVER_COMMANDS.get(c):
                ctx.tie_breaks.append(f"linkage:the correspondence '{c}' was never exercised in this run "
                                      f"(no request sent to the driver)")
    # known findings: replayed explicitly by the module on every run
    for key, what in ctx.known_hits:
        print(f"KNOWN-FINDING: property={prop} {key}: {what}")
    rc = 0
    violations = 0
    if ctx.oracle_failures:
        f0 = ctx.oracle_failures[0]
        path = write_replay(ctx, {"kind": "oracle-failure", "failure": f0,
                                  "all_failures": ctx.oracle_failures[:10],
                                  "tie_breaks": ctx.tie_breaks,
                                  "correspondence_mismatches": ctx.corr_mismatches[:5]})
        print(f"VIOLATION property={prop} replay={path}")
        print(f"  {f0['what']}: input={json.dumps(f0['input'], default=str)[:300]}")
        violations = len(ctx.oracle_failures)
        rc = 1
    elif ctx.tie_breaks or ctx.corr_mismatches:
        broken = list(ctx.tie_breaks) + [f"corr:{prop}/{m['corr']}" for m in ctx.corr_mismatches[:5]]
        path = write_replay(ctx, {"kind": "tie-broken-no-failing-input",
                                  "no_longer_checks": broken,
                                  "theorems": ctx.theorems,
                                  "correspondence_mismatches": ctx.corr_mismatches[:10],
                                  "search": {"evaluations": ctx.evaluations}})
        print(f"VIOLATION property={prop} replay={path} no-failing-input-found")
        for b in broken[:5]:
            print("  no longer checks:", b.splitlines()[0][:300])
        violations = 1
        rc = 1
    write_evidence(ctx, violations)
    if rc == 0:
        print(f"OK property={prop} tier={tier} seed={seed} theorems={len(ctx.theorems)} "
              f"obligations={ctx.obligations} cases={ctx.evaluations} "
              f"distinct={len(ctx._distinct)} wall={now() - ctx.t0:.1f}s")
    return rc
