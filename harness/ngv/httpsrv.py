"""Loopback static-file server emulating the documented nginx/Apache configuration
(flat chunk URLs mapped onto flat or sub-directory layouts, .gz files served with
Content-Encoding: gzip, Range requests for shards) with programmable faults."""
import http.server
import os
import re
import socket
import threading
import urllib.parse


class Handler(http.server.BaseHTTPRequestHandler):
    protocol_version = "HTTP/1.1"

    def log_message(self, *a):
        pass

    def _resolve(self, path):
        root = self.server.root
        rel = urllib.parse.unquote(path.lstrip("/"))   # a static file server maps the decoded path to the file
        cands = [rel]
        m = re.fullmatch(r"(.*)/(\d+-\d+)_(\d+-\d+)_(\d+-\d+)", rel)
        if m:
            cands.append("/".join(m.groups()))
        for c in cands:
            p = os.path.join(root, c)
            if os.path.isfile(p):
                return p, False
            if os.path.isfile(p + ".gz"):
                return p + ".gz", True
        return None, False

    def _serve(self, head):
        srv = self.server
        path = self.path.split("?")[0]
        srv.log.append((self.command, path, self.headers.get("Range")))
        fault = None
        for pat, f in srv.faults:
            if re.search(pat, path) and (f.get("method") in (None, self.command)):
                fault = f
                break
        if fault and fault["kind"] == "status":
            body = fault.get("body", b"<html>error page</html>")
            self.send_response(fault["code"])
            self.send_header("Content-Length", str(len(body)))
            self.end_headers()
            if not head:
                self.wfile.write(body)
            return
        if fault and fault["kind"] == "drop":
            self.send_response(200)
            self.send_header("Content-Length", "1000")
            self.end_headers()
            self.wfile.write(b"par")
            self.wfile.flush()
            self.connection.shutdown(socket.SHUT_RDWR)
            self.close_connection = True
            return
        p, gz = self._resolve(path)
        if p is None:
            self.send_response(404)
            self.send_header("Content-Length", "0")
            self.end_headers()
            return
        with open(p, "rb") as f:
            data = f.read()
        rng = self.headers.get("Range")
        code = 200
        if rng and not gz and not (fault and fault["kind"] == "ignore-range"):
            m = re.fullmatch(r"bytes=(\d+)-(\d+)", rng)
            # RFC 7233: last < first is syntactically invalid -> header ignored (200, whole
            # entity); first byte past the end -> 416; else 206 with the bytes that exist
            if m and int(m.group(2)) >= int(m.group(1)):
                a, b = int(m.group(1)), int(m.group(2))
                if a >= len(data):
                    self.send_response(416)
                    self.send_header("Content-Range", "bytes */%d" % len(data))
                    self.send_header("Content-Length", "0")
                    self.end_headers()
                    return
                data = data[a:b + 1]
                code = 206
        if fault and fault["kind"] == "short":
            data = data[:max(0, len(data) - 1)]
        if fault and fault["kind"] == "long":
            data = data + b"\0"
        self.send_response(code)
        if gz:
            self.send_header("Content-Encoding", "gzip")
        self.send_header("Content-Length", str(len(data)))
        self.end_headers()
        if not head:
            self.wfile.write(data)

    def do_GET(self):
        self._serve(False)

    def do_HEAD(self):
        self._serve(True)


class Server:
    def __init__(self, root):
        self.httpd = http.server.ThreadingHTTPServer(("127.0.0.1", 0), Handler)
        self.httpd.root = root
        self.httpd.faults = []
        self.httpd.log = []
        self.thread = threading.Thread(target=self.httpd.serve_forever, daemon=True)
        self.thread.start()
        self.url = "http://127.0.0.1:%d" % self.httpd.server_address[1]

    def set_faults(self, faults):
        self.httpd.faults = list(faults)

    def close(self):
        self.httpd.shutdown()
        self.httpd.server_close()
