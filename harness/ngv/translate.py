"""Python -> Lean translator for small pure integer expressions of /repo's source (DESIGN.md 11.9).

For every entry of SPECS an expression is located in the CURRENT source by a structural selector (function,
then e.g. "the test of the `if` inside the `for`"), single-assignment locals are inlined, and the expression is
translated to a Lean definition over `Int` (or `Nat` for shift/mask expressions) in
`lean/NgVerif/Generated/Exprs.lean`, which is rewritten before every `lake build`. `lean/NgVerif/Proofs/Source.lean`
proves, for ALL arguments, that each generated definition equals the corresponding hand-written model definition
(under the stated positivity hypotheses) - so a change of the source expression either keeps those proofs valid or
breaks the build of the property, which the verdict protocol treats as a broken tie.

Supported subset: integer constants, names, attribute chains (`self.shard_spec.preshift_bits` -> `preshift_bits`),
subscripts with a constant index (`size[0]` -> `size_0`), + - * // % ** << >> &, unary minus, `min` / `max`,
`np.uint64(e)` / `int(e)` (identity), chained comparisons, `and` / `or` / `not`. Anything else is a TableError
(reported as a broken tie, never ignored). Python `//` and `%` are floor division / modulo: they are translated to
Lean's `Int` `/` and `%` (Euclidean), which agree with Python's for a POSITIVE divisor - every proof about a
generated definition carries that hypothesis explicitly.
"""
import ast
import os

from . import paths
from .tables import TableError, _module


class Untranslatable(TableError):
    pass


def _find_func(tree, qual):
    """qual: 'func' or 'Class.func' or 'Class.prop' (first match)"""
    parts = qual.split(".")
    scope = tree
    for name in parts:
        found = None
        for node in ast.walk(scope):
            if isinstance(node, (ast.FunctionDef, ast.ClassDef)) and node.name == name and node is not scope:
                found = node
                break
        if found is None:
            raise Untranslatable(f"{qual}: {name} not found")
        scope = found
    return scope


def _select(func, selector):
    kind, _, arg = selector.partition(":")
    if kind == "return":
        rets = [n for n in ast.walk(func) if isinstance(n, ast.Return) and n.value is not None]
        idx = int(arg) if arg else 0
        if len(rets) <= idx:
            raise Untranslatable(f"{func.name}: return #{idx} not found")
        return rets[idx].value
    if kind == "if-in-for":
        for node in ast.walk(func):
            if isinstance(node, ast.For):
                for sub in ast.walk(node):
                    if isinstance(sub, ast.If):
                        return sub.test
        raise Untranslatable(f"{func.name}: no `if` inside a `for`")
    if kind == "range-of":
        for node in ast.walk(func):
            if (isinstance(node, ast.For) and isinstance(node.target, ast.Name) and node.target.id == arg
                    and isinstance(node.iter, ast.Call) and getattr(node.iter.func, "id", getattr(node.iter.func, "attr", "")) in ("range", "trange")
                    and len(node.iter.args) == 1):
                return node.iter.args[0]
        raise Untranslatable(f"{func.name}: `for {arg} in range(e)` not found")
    if kind in ("slice-lower", "slice-upper"):
        for node in ast.walk(func):
            if (isinstance(node, ast.Assign) and len(node.targets) == 1 and isinstance(node.targets[0], ast.Name)
                    and node.targets[0].id == arg and isinstance(node.value, ast.Subscript)
                    and isinstance(node.value.slice, ast.Slice)):
                sl = node.value.slice
                e = sl.lower if kind == "slice-lower" else sl.upper
                if e is None:
                    raise Untranslatable(f"{func.name}: slice bound of {arg} missing")
                return e
        raise Untranslatable(f"{func.name}: `{arg} = np.s_[lo:hi]` not found")
    if kind == "assign-attr":
        for node in ast.walk(func):
            if (isinstance(node, ast.Assign) and len(node.targets) == 1 and isinstance(node.targets[0], ast.Attribute)
                    and node.targets[0].attr == arg):
                return node.value
        raise Untranslatable(f"{func.name}: assignment to .{arg} not found")
    if kind == "comp-elt-key":
        # `d["key"] = [e for ...]` (possibly nested one level: `[[e for ...]]`)
        for node in ast.walk(func):
            if (isinstance(node, ast.Assign) and len(node.targets) == 1 and isinstance(node.targets[0], ast.Subscript)
                    and isinstance(node.targets[0].slice, ast.Constant) and node.targets[0].slice.value == arg):
                v = node.value
                if isinstance(v, ast.List) and len(v.elts) == 1:
                    v = v.elts[0]
                if isinstance(v, ast.ListComp):
                    return v.elt
        raise Untranslatable(f"{func.name}: `...[{arg!r}] = [e for ...]` not found")
    if kind == "comp-elt":
        for node in ast.walk(func):
            if (isinstance(node, ast.Assign) and len(node.targets) == 1 and isinstance(node.targets[0], ast.Name)
                    and node.targets[0].id == arg and isinstance(node.value, ast.ListComp)):
                return node.value.elt
        raise Untranslatable(f"{func.name}: `{arg} = [e for ...]` not found")
    if kind == "assign":
        for node in ast.walk(func):
            if (isinstance(node, ast.Assign) and len(node.targets) == 1 and isinstance(node.targets[0], ast.Name)
                    and node.targets[0].id == arg):
                return node.value
        raise Untranslatable(f"{func.name}: assignment to {arg} not found")
    raise Untranslatable(f"unknown selector {selector}")


def _locals(func):
    """single-assignment simple locals of the function: name -> expression (for inlining)"""
    count, val = {}, {}
    for node in ast.walk(func):
        if isinstance(node, ast.Assign):
            for t in node.targets:
                for n in ast.walk(t):
                    if isinstance(n, ast.Name):
                        count[n.id] = count.get(n.id, 0) + 1
                if isinstance(t, ast.Name):
                    val[t.id] = node.value
        elif isinstance(node, (ast.AugAssign, ast.For)):
            tgt = node.target
            for n in ast.walk(tgt):
                if isinstance(n, ast.Name):
                    count[n.id] = count.get(n.id, 0) + 2
    return {k: v for k, v in val.items() if count.get(k) == 1}


class Tr:
    def __init__(self, ty, inline, rename):
        self.ty = ty                  # "Int" | "Nat"
        self.inline = inline          # name -> ast expr
        self.rename = rename or {}
        self.params = []
        self.depth = 0

    def ident(self, name):
        name = self.rename.get(name, name).lstrip("_")
        if name not in self.params:
            self.params.append(name)
        return name

    def tr(self, n):
        """arithmetic expression -> Lean term of type self.ty"""
        if isinstance(n, ast.Constant) and isinstance(n.value, int) and not isinstance(n.value, bool):
            lty = "Nat" if self.ty == "U64" else self.ty
            return f"({n.value} : {lty})" if n.value >= 0 else f"(-{-n.value} : {lty})"
        if self.ty == "U64" and isinstance(n, ast.Name) and n.id == "_MAX_UINT64":
            return "Routing.MAX64"
        if isinstance(n, ast.Name):
            if n.id in self.inline and self.depth < 8:
                self.depth += 1
                try:
                    return self.tr(self.inline[n.id])
                finally:
                    self.depth -= 1
            return self.ident(n.id)
        if isinstance(n, ast.Attribute):
            return self.ident(n.attr)
        if isinstance(n, ast.Subscript) and isinstance(n.slice, ast.Constant) and isinstance(n.slice.value, int):
            base = n.value
            bname = base.id if isinstance(base, ast.Name) else (base.attr if isinstance(base, ast.Attribute) else None)
            if bname is None:
                raise Untranslatable("subscript of a compound expression")
            return self.ident(f"{bname}_{n.slice.value}")
        if isinstance(n, ast.UnaryOp) and isinstance(n.op, ast.USub) and self.ty == "Int":
            return f"(-{self.tr(n.operand)})"
        if isinstance(n, ast.UnaryOp) and isinstance(n.op, ast.Invert) and self.ty == "U64":
            return f"(Routing.not64 {self.tr(n.operand)})"
        if self.ty == "U64" and isinstance(n, ast.BinOp) and isinstance(n.op, (ast.LShift, ast.RShift)):
            fn = "Routing.shl64" if isinstance(n.op, ast.LShift) else "Routing.shr64"
            return f"({fn} {self.tr(n.left)} {self.tr(n.right)})"
        if self.ty == "U64" and isinstance(n, ast.BinOp) and isinstance(n.op, ast.BitAnd):
            return f"({self.tr(n.left)} &&& {self.tr(n.right)})"
        if self.ty == "U64" and isinstance(n, ast.Name) and n.id == "_MAX_UINT64":
            return "Routing.MAX64"
        if (self.ty == "U64" and isinstance(n, ast.Call) and isinstance(n.func, ast.Attribute)
                and isinstance(n.func.value, ast.Name) and n.func.value.id == "self"
                and all(isinstance(a, ast.Name) for a in n.args) and not n.keywords):
            # a method of the same object applied to plain names: an opaque value, e.g. self._hash(cmc) -> hash_cmc
            return self.ident(n.func.attr.lstrip("_") + "_" + "_".join(a.id for a in n.args))
        if isinstance(n, ast.BinOp):
            a, b = self.tr(n.left), self.tr(n.right)
            ops = {ast.Add: "+", ast.Sub: "-", ast.Mult: "*", ast.FloorDiv: "/", ast.Mod: "%"}
            if type(n.op) in ops:
                return f"({a} {ops[type(n.op)]} {b})"
            if isinstance(n.op, ast.Pow):
                return f"({a} ^ {b}.toNat)" if self.ty == "Int" else f"({a} ^ {b})"
            if self.ty == "Nat":
                bops = {ast.LShift: "<<<", ast.RShift: ">>>", ast.BitAnd: "&&&", ast.BitOr: "|||"}
                if type(n.op) in bops:
                    return f"({a} {bops[type(n.op)]} {b})"
            raise Untranslatable(f"operator {type(n.op).__name__} in type {self.ty}")
        if isinstance(n, ast.Call):
            f = n.func
            fname = f.id if isinstance(f, ast.Name) else (f.attr if isinstance(f, ast.Attribute) else None)
            if fname in ("min", "max") and len(n.args) == 2 and not n.keywords:
                return f"({fname} {self.tr(n.args[0])} {self.tr(n.args[1])})"
            if fname in ("int", "uint64", "int64") and len(n.args) == 1 and not n.keywords:
                return self.tr(n.args[0])
            if fname == "ceil_div" and len(n.args) == 2 and not n.keywords and self.ty == "Int":
                return f"(ceilDiv {self.tr(n.args[0])} {self.tr(n.args[1])})"     # the translated utils.ceil_div
            raise Untranslatable(f"call of {fname}")
        raise Untranslatable(f"expression {type(n).__name__}")

    def prop(self, n):
        """boolean expression -> Lean Prop"""
        if isinstance(n, ast.BoolOp):
            sep = " ∧ " if isinstance(n.op, ast.And) else " ∨ "
            return "(" + sep.join(self.prop(v) for v in n.values) + ")"
        if isinstance(n, ast.UnaryOp) and isinstance(n.op, ast.Not):
            return f"(¬ {self.prop(n.operand)})"
        if isinstance(n, ast.Compare):
            ops = {ast.Lt: "<", ast.LtE: "≤", ast.Gt: ">", ast.GtE: "≥", ast.Eq: "=", ast.NotEq: "≠"}
            parts, left = [], n.left
            for op, right in zip(n.ops, n.comparators):
                if type(op) not in ops:
                    raise Untranslatable(f"comparison {type(op).__name__}")
                parts.append(f"{self.tr(left)} {ops[type(op)]} {self.tr(right)}")
                left = right
            return "(" + " ∧ ".join(parts) + ")"
        raise Untranslatable(f"boolean expression {type(n).__name__}")


SPECS = [
    # name, file, function, selector, type, result kind, renames
    dict(name="validateCond", file="precomputed_io.py", func="PrecomputedIO.validate_chunk_coords",
         select="if-in-for", ty="Int", result="Bool"),
    dict(name="ceilDiv", file="utils.py", func="ceil_div", select="return", ty="Int", result="val"),
    dict(name="volCountZ", file="volume_reader.py", func="volume_to_precomputed", select="range-of:z_chunk_idx",
         ty="Int", result="val"),
    dict(name="volLowerZ", file="volume_reader.py", func="volume_to_precomputed", select="slice-lower:z_slicing",
         ty="Int", result="val"),
    dict(name="volUpperZ", file="volume_reader.py", func="volume_to_precomputed", select="slice-upper:z_slicing",
         ty="Int", result="val"),
    dict(name="volCountX", file="volume_reader.py", func="volume_to_precomputed", select="range-of:x_chunk_idx",
         ty="Int", result="val"),
    dict(name="volUpperX", file="volume_reader.py", func="volume_to_precomputed", select="slice-upper:x_slicing",
         ty="Int", result="val"),
    dict(name="cvtLowerX", file="scripts/convert_chunks.py", func="convert_chunks_for_scale", select="assign:xmin",
         ty="Int", result="val", noinline=True),
    dict(name="cvtUpperX", file="scripts/convert_chunks.py", func="convert_chunks_for_scale", select="assign:xmax",
         ty="Int", result="val", noinline=True),
    dict(name="cvtUpperZ", file="scripts/convert_chunks.py", func="convert_chunks_for_scale", select="assign:zmax",
         ty="Int", result="val", noinline=True),
    dict(name="pyrHalfChunk", file="dyadic_pyramid.py", func="compute_dyadic_downscaling", select="comp-elt:half_chunk",
         ty="Int", result="val", noinline=True),
    dict(name="pyrFetchFactor", file="dyadic_pyramid.py", func="compute_dyadic_downscaling",
         select="comp-elt:chunk_fetch_factor", ty="Int", result="val", noinline=True),
    dict(name="statsChunksPerAxis", file="scripts/scale_stats.py", func="show_scales_info",
         select="comp-elt:size_in_chunks", ty="Int", result="val", noinline=True),
    dict(name="sliceGroups", file="scripts/slices_to_precomputed.py", func="slices_to_raw_chunks",
         select="range-of:slice_chunk_idx", ty="Int", result="val", noinline=True),
    dict(name="sliceFirstInOrder", file="scripts/slices_to_precomputed.py", func="slices_to_raw_chunks",
         select="assign:first_slice_in_order", ty="Int", result="val", noinline=True),
    dict(name="sliceLastInOrder", file="scripts/slices_to_precomputed.py", func="slices_to_raw_chunks",
         select="assign:last_slice_in_order", ty="Int", result="val", noinline=True),
    dict(name="sliceFirstReversed", file="scripts/slices_to_precomputed.py", func="slices_to_raw_chunks",
         select="assign:first_slice", ty="Int", result="val", noinline=True),
    dict(name="sliceLastReversed", file="scripts/slices_to_precomputed.py", func="slices_to_raw_chunks",
         select="assign:last_slice", ty="Int", result="val", noinline=True),
    dict(name="scaleFactor", file="dyadic_pyramid.py", func="fill_scales_for_dyadic_pyramid.downscale_info",
         select="comp-elt:factors", ty="Int", result="val", noinline=True),
    dict(name="scaleSize", file="dyadic_pyramid.py", func="fill_scales_for_dyadic_pyramid.downscale_info",
         select="comp-elt-key:size", ty="Int", result="val", noinline=True),
    dict(name="anisotropyFactor", file="dyadic_pyramid.py", func="fill_scales_for_dyadic_pyramid.downscale_info",
         select="comp-elt:anisotropy_factors", ty="Int", result="val", noinline=True),
    dict(name="baseChunkExponent", file="dyadic_pyramid.py", func="fill_scales_for_dyadic_pyramid.downscale_info",
         select="assign:base_chunk_exponent", ty="Int", result="val", noinline=True),
    dict(name="chunkSizeOfExponent", file="dyadic_pyramid.py", func="fill_scales_for_dyadic_pyramid.downscale_info",
         select="comp-elt-key:chunk_sizes", ty="Int", result="val", noinline=True),
    dict(name="minishardMask", file="sharded_base.py", func="ShardSpec.minishard_mask",
         select="assign-attr:_minishard_mask", ty="U64", result="val"),
    dict(name="preshiftMask", file="sharded_base.py", func="ShardSpec.preshift_mask",
         select="assign-attr:_preshift_mask", ty="U64", result="val"),
    dict(name="shardMask", file="sharded_base.py", func="ShardSpec.shard_mask",
         select="assign-attr:_shard_mask", ty="U64", result="val"),
    dict(name="shardKey", file="sharded_base.py", func="CMCReadWrite.get_shard_key", select="return",
         ty="U64", result="val"),
    dict(name="minishardKey", file="sharded_base.py", func="CMCReadWrite.get_minishard_key", select="return",
         ty="U64", result="val"),
    dict(name="nextCmc", file="sharded_file_accessor.py", func="MiniShard.next_cmc", select="return",
         ty="Nat", result="val", keep=["preshift_mask"]),
]


# What each definition looked like when the proofs of Proofs/Source.lean were written. Used ONLY when the expression
# can no longer be located or translated (the function was restructured): the build then still goes through, the
# theorems about that definition say nothing about the current source, and the run records the lapse
# (`stats.translated_source`); the differential correspondence remains the tie for that function.
FALLBACK = {
    "validateCond": ("(xmin xs ymin ys zmin zs xcs xmax ycs ymax zcs zmax : Int)", "Prop",
                     "(((0 : Int) ≤ xmin ∧ xmin < xs) ∧ ((0 : Int) ≤ ymin ∧ ymin < ys) ∧ ((0 : Int) ≤ zmin ∧ zmin < zs) ∧ "
                     "((xmin % xcs) = (0 : Int)) ∧ (xmax = (min (xmin + xcs) xs)) ∧ ((ymin % ycs) = (0 : Int)) ∧ "
                     "(ymax = (min (ymin + ycs) ys)) ∧ ((zmin % zcs) = (0 : Int)) ∧ (zmax = (min (zmin + zcs) zs)))"),
    "ceilDiv": ("(a b : Int)", "Int", "(((a - (1 : Int)) / b) + (1 : Int))"),
    "volCountZ": ("(size_2 chunk_size_2 : Int)", "Int", "(((size_2 - (1 : Int)) / chunk_size_2) + (1 : Int))"),
    "volLowerZ": ("(chunk_size_2 z_chunk_idx : Int)", "Int", "(chunk_size_2 * z_chunk_idx)"),
    "volUpperZ": ("(chunk_size_2 z_chunk_idx size_2 : Int)", "Int", "(min (chunk_size_2 * (z_chunk_idx + (1 : Int))) size_2)"),
    "volCountX": ("(size_0 chunk_size_0 : Int)", "Int", "(((size_0 - (1 : Int)) / chunk_size_0) + (1 : Int))"),
    "volUpperX": ("(chunk_size_0 x_chunk_idx size_0 : Int)", "Int", "(min (chunk_size_0 * (x_chunk_idx + (1 : Int))) size_0)"),
    "cvtLowerX": ("(chunk_size_0 x_idx : Int)", "Int", "(chunk_size_0 * x_idx)"),
    "cvtUpperX": ("(chunk_size_0 x_idx size_0 : Int)", "Int", "(min (chunk_size_0 * (x_idx + (1 : Int))) size_0)"),
    "cvtUpperZ": ("(chunk_size_2 z_idx size_2 : Int)", "Int", "(min (chunk_size_2 * (z_idx + (1 : Int))) size_2)"),
    "pyrHalfChunk": ("(osz f : Int)", "Int", "(osz / f)"),
    "pyrFetchFactor": ("(nsz hc : Int)", "Int", "(nsz / hc)"),
    "statsChunksPerAxis": ("(s cs : Int)", "Int", "(((s - (1 : Int)) / cs) + (1 : Int))"),
    "sliceGroups": ("(input_size_2 input_chunk_size_2 : Int)", "Int", "(((input_size_2 - (1 : Int)) / input_chunk_size_2) + (1 : Int))"),
    "sliceFirstInOrder": ("(input_chunk_size_2 slice_chunk_idx : Int)", "Int", "(input_chunk_size_2 * slice_chunk_idx)"),
    "sliceLastInOrder": ("(input_chunk_size_2 slice_chunk_idx input_size_2 : Int)", "Int",
                         "(min (input_chunk_size_2 * (slice_chunk_idx + (1 : Int))) input_size_2)"),
    "sliceFirstReversed": ("(input_size_2 first_slice_in_order : Int)", "Int", "((input_size_2 - first_slice_in_order) - (1 : Int))"),
    "sliceLastReversed": ("(input_size_2 last_slice_in_order : Int)", "Int", "((input_size_2 - last_slice_in_order) - (1 : Int))"),
    "scaleFactor": ("(scale_level delay : Int)", "Int", "((2 : Int) ^ (max (0 : Int) (scale_level - delay)).toNat)"),
    "scaleSize": ("(sz axis_factor : Int)", "Int", "(ceilDiv sz axis_factor)"),
    "anisotropyFactor": ("(max_delay delay scale_level : Int)", "Int", "(max (0 : Int) ((max_delay - delay) - scale_level))"),
    "baseChunkExponent": ("(target_chunk_exponent sum_anisotropy_factors : Int)", "Int",
                          "(target_chunk_exponent - ((sum_anisotropy_factors + (1 : Int)) / (3 : Int)))"),
    "chunkSizeOfExponent": ("(base_chunk_exponent anisotropy_factor : Int)", "Int",
                            "((2 : Int) ^ (base_chunk_exponent + anisotropy_factor).toNat)"),
    "minishardMask": ("(minishard_bits : Nat)", "Nat",
                      "(Routing.not64 (Routing.shl64 (Routing.shr64 Routing.MAX64 minishard_bits) minishard_bits))"),
    "preshiftMask": ("(preshift_bits : Nat)", "Nat",
                     "(Routing.not64 (Routing.shl64 (Routing.shr64 Routing.MAX64 preshift_bits) preshift_bits))"),
    "shardMask": ("(minishard_bits shard_bits minishard_mask : Nat)", "Nat",
                  "((Routing.not64 (Routing.shl64 (Routing.shr64 Routing.MAX64 (minishard_bits + shard_bits)) "
                  "(minishard_bits + shard_bits))) &&& (Routing.not64 minishard_mask))"),
    "shardKey": ("(shard_mask hash_cmc minishard_bits : Nat)", "Nat", "(Routing.shr64 (shard_mask &&& hash_cmc) minishard_bits)"),
    "minishardKey": ("(minishard_mask hash_cmc : Nat)", "Nat", "(minishard_mask &&& hash_cmc)"),
    "nextCmc": ("(appended preshift_bits shard_bits minishard_bits masked_bits preshift_mask : Nat)", "Nat",
                "((((appended >>> preshift_bits) <<< ((preshift_bits + shard_bits) + minishard_bits)) + masked_bits) + "
                "(appended &&& preshift_mask))"),
}
STATUS = {}


def translate_all():
    out = []
    STATUS.clear()
    for sp in SPECS:
        try:
            tree = _module(sp["file"])
            func = _find_func(tree, sp["func"])
            expr = _select(func, sp["select"])
            inline = {} if sp.get("noinline") else _locals(func)
            for k in sp.get("keep", []):
                inline.pop(k, None)
            t = Tr(sp["ty"], inline, sp.get("rename"))
            body = t.prop(expr) if sp["result"] == "Bool" else t.tr(expr)
            recorded = set(FALLBACK[sp["name"]][0].strip("()").split(":")[0].split())
            if set(t.params) != recorded:
                # same computation over other local names cannot be matched with the proofs (they bind arguments by name)
                raise Untranslatable(f"free variables {sorted(t.params)} differ from the recorded {sorted(recorded)}")
        except TableError as exc:
            sig, rty, body = FALLBACK[sp["name"]]
            STATUS[sp["name"]] = f"NOT TRANSLATED ({exc}); the definition is the recorded one, its theorems say nothing about the current source"
            out.append(f"/-- `{sp['func']}` ({sp['file']}): not located in the current source, recorded translation -/\n"
                       f"def {sp['name']} {sig} : {rty} :=\n  {body}")
            continue
        STATUS[sp["name"]] = "translated from the current source"
        params = " ".join(t.params)
        lty = "Nat" if sp["ty"] == "U64" else sp["ty"]
        sig = f"({params} : {lty})" if t.params else ""
        src = ast.unparse(expr).replace("\n", " ")
        if sp["result"] == "Bool":
            out.append(f"/-- `{sp['func']}` ({sp['file']}): `{src[:300]}` -/\n"
                       f"def {sp['name']} {sig} : Prop :=\n  {body}")
        else:
            out.append(f"/-- `{sp['func']}` ({sp['file']}): `{src[:300]}` -/\n"
                       f"def {sp['name']} {sig} : {lty} :=\n  {body}")
    return out


def render():
    head = ("/- GENERATED by harness/ngv/translate.py from /repo's current source on every run.\n"
            "   Do not edit: the file is rewritten before each `lake build`. -/\n"
            "import NgVerif.Model.Routing\nnamespace NgVerif.Generated.Src\nopen NgVerif\n\n")
    return head + "\n\n".join(translate_all()) + "\n\nend NgVerif.Generated.Src\n"


def regenerate():
    text = render()
    target = os.path.join(paths.LEAN, "NgVerif", "Generated", "Exprs.lean")
    old = None
    if os.path.exists(target):
        with open(target) as f:
            old = f.read()
    if old != text:
        os.makedirs(os.path.dirname(target), exist_ok=True)
        tmp = target + ".tmp%d" % os.getpid()
        with open(tmp, "w") as f:
            f.write(text)
        os.replace(tmp, target)
        return True, text
    return False, text
