"""Regenerate lean/NgVerif/Generated/Tables.lean from /repo's current source (DESIGN.md §3.2).

Every constant is located syntactically with `ast`; a constant that cannot be found in the
expected form raises TableError, which the check reports as a broken tie (never ignored).
"""
import ast
import os

from . import paths


class TableError(Exception):
    pass


def _module(relpath):
    p = os.path.join(paths.REPO_SRC, "neuroglancer_scripts", relpath)
    try:
        with open(p) as f:
            return ast.parse(f.read(), p)
    except (OSError, SyntaxError) as exc:
        raise TableError(f"cannot parse {p}: {exc}") from exc


_SAFE_CALLS = {"frozenset": frozenset, "set": set, "tuple": tuple, "list": list, "sorted": sorted, "range": range}


def _const_eval(node, tree=None, depth=0):
    """Evaluate a constant expression: numbers, strings, tuples, lists, sets, dicts, arithmetic, calls of
    frozenset/set/tuple/list/sorted/range on constants and (when `tree` is given) names bound once at module
    level to such an expression - so that a harmless `X = frozenset((0, 1, 2))` ... `in X` is still read."""
    if depth > 8:
        raise TableError("constant definition chain too deep")

    class Resolve(ast.NodeTransformer):
        def visit_Name(self, n):
            if n.id in _SAFE_CALLS:
                return n
            if tree is None:
                raise TableError("non-literal constant: " + ast.dump(node)[:200])
            return ast.Constant(_const_eval(_assign_value(tree, n.id), tree, depth + 1))

    import copy
    node = Resolve().visit(copy.deepcopy(node))
    ast.fix_missing_locations(node)
    for sub in ast.walk(node):
        if isinstance(sub, ast.Call):
            if not (isinstance(sub.func, ast.Name) and sub.func.id in _SAFE_CALLS and not sub.keywords):
                raise TableError("non-literal constant: " + ast.dump(node)[:200])
        elif isinstance(sub, (ast.Attribute, ast.Lambda, ast.Subscript)):
            raise TableError("non-literal constant: " + ast.dump(node)[:200])
    # ast.Constant cannot hold sets: evaluate bottom-up with the resolved values in a namespace instead
    consts = {}

    class Lift(ast.NodeTransformer):
        def visit_Constant(self, n):
            if isinstance(n.value, (frozenset, set, tuple, list, dict)):
                k = f"_c{len(consts)}"
                consts[k] = n.value
                return ast.copy_location(ast.Name(id=k, ctx=ast.Load()), n)
            return n
    node = Lift().visit(node)
    ast.fix_missing_locations(node)
    return eval(compile(ast.Expression(node), "<const>", "eval"), {"__builtins__": {}}, dict(_SAFE_CALLS, **consts))


def _assign_value(tree, name):
    for node in tree.body:
        if isinstance(node, ast.Assign) and any(
                isinstance(t, ast.Name) and t.id == name for t in node.targets):
            return node.value
    raise TableError(f"module-level assignment to {name} not found")


def _func(tree, name):
    for node in ast.walk(tree):
        if isinstance(node, (ast.FunctionDef,)) and node.name == name:
            return node
    raise TableError(f"function {name} not found")


def lean_str(s):
    out = '"'
    for ch in s:
        if ch == '"' or ch == "\\":
            out += "\\" + ch
        elif ch == "\n":
            out += "\\n"
        else:
            out += ch
    return out + '"'


def lean_list(items):
    return "[" + ", ".join(items) + "]"


LAPSES = []


def extract():
    LAPSES.clear()
    """Return dict name -> Lean definition text (ordered)."""
    defs = {}
    # --- utils.py -----------------------------------------------------------------------
    utils = _module("utils.py")
    iec = _const_eval(_assign_value(utils, "_IEC_PREFIXES"))
    if not (isinstance(iec, list) and all(
            isinstance(e, tuple) and len(e) == 2 and isinstance(e[0], int) and e[0] > 0
            and isinstance(e[1], str) for e in iec)):
        raise TableError("_IEC_PREFIXES has an unexpected form")
    defs["iecPrefixes"] = ("def iecPrefixes : List (Nat × String) := "
                           + lean_list(f"({f}, {lean_str(p)})" for f, p in iec))
    # LENGTH_UNITS: OrderedDict([(name, float), ...]) ; factors as (name, numerator, denominator)
    lu = _assign_value(utils, "LENGTH_UNITS")
    if not (isinstance(lu, ast.Call) and len(lu.args) == 1):
        raise TableError("LENGTH_UNITS is not OrderedDict([...])")
    lu_list = _const_eval(lu.args[0])
    items = []
    for name, factor in lu_list:
        num, den = float(factor).as_integer_ratio()
        items.append(f"({lean_str(name)}, {num}, {den})")
    defs["lengthUnits"] = ("/-- (unit, numerator, denominator) of the float64 factor -/\n"
                           "def lengthUnits : List (String × Nat × Nat) := " + lean_list(items))
    # --- _compressed_segmentation.py ------------------------------------------------------
    cseg = _module("_compressed_segmentation.py")
    f = _func(cseg, "number_of_encoding_bits")
    bits_enc = None
    for node in ast.walk(f):
        if isinstance(node, ast.For):
            bits_enc = _const_eval(node.iter, cseg)
    if isinstance(bits_enc, (set, frozenset, list, range)):
        bits_enc = tuple(sorted(bits_enc)) if isinstance(bits_enc, (set, frozenset)) else tuple(bits_enc)
    if not (isinstance(bits_enc, tuple) and all(isinstance(b, int) and b >= 0 for b in bits_enc)):
        raise TableError("number_of_encoding_bits: bit-width tuple not found")
    defs["csegBitsEnc"] = "def csegBitsEnc : List Nat := " + lean_list(map(str, bits_enc))
    f = _func(cseg, "_decode_channel_into")
    bits_dec = None
    for node in ast.walk(f):
        if (isinstance(node, ast.Compare) and len(node.ops) == 1
                and isinstance(node.ops[0], ast.NotIn)
                and isinstance(node.left, ast.Name) and node.left.id == "bits"):
            bits_dec = _const_eval(node.comparators[0], cseg)
    if isinstance(bits_dec, (set, frozenset, list, range)):
        bits_dec = tuple(sorted(bits_dec))
    if not (isinstance(bits_dec, tuple) and all(isinstance(b, int) and b >= 0 for b in bits_dec)):
        # the decoder's test is no longer a membership test in a literal collection: recorded widths, lapse noted (the
        # malformed-input correspondence of C10 sweeps the whole bit-width field against the model)
        LAPSES.append("_decode_channel_into: accepted bit widths not located as a literal collection, recorded values used")
        bits_dec = (0, 1, 2, 4, 8, 16, 32)
    defs["csegBitsDec"] = "def csegBitsDec : List Nat := " + lean_list(map(str, bits_dec))
    # --- chunk_encoding.py: the data types and what each encoder accepts ------------------
    ce = _module("chunk_encoding.py")
    ngt = _const_eval(_assign_value(ce, "NEUROGLANCER_DATA_TYPES"), ce)
    if not (isinstance(ngt, (tuple, list)) and all(isinstance(t, str) for t in ngt)):
        raise TableError("NEUROGLANCER_DATA_TYPES is not a tuple of strings")
    defs["neuroglancerDataTypes"] = "def neuroglancerDataTypes : List String := " + lean_list(lean_str(t) for t in ngt)

    def _init_of(cls_name):
        for node in ast.walk(ce):
            if isinstance(node, ast.ClassDef) and node.name == cls_name:
                for sub in node.body:
                    if isinstance(sub, ast.FunctionDef) and sub.name == "__init__":
                        return sub
        raise TableError(f"{cls_name}.__init__ not found")
    cseg_types = jpeg_type = jpeg_channels = None
    for node in ast.walk(_init_of("CompressedSegmentationEncoder")):
        if (isinstance(node, ast.Compare) and len(node.ops) == 1 and isinstance(node.ops[0], ast.NotIn)
                and isinstance(node.left, ast.Name) and node.left.id == "data_type"):
            cseg_types = _const_eval(node.comparators[0], ce)
    for node in ast.walk(_init_of("JpegChunkEncoder")):
        if isinstance(node, ast.Compare) and len(node.ops) == 1 and isinstance(node.left, ast.Name):
            if node.left.id == "data_type" and isinstance(node.ops[0], ast.NotEq):
                jpeg_type = _const_eval(node.comparators[0], ce)
            if node.left.id == "num_channels" and isinstance(node.ops[0], ast.NotIn):
                jpeg_channels = _const_eval(node.comparators[0], ce)
    if isinstance(cseg_types, (set, frozenset)):
        cseg_types = tuple(sorted(cseg_types))
    if isinstance(jpeg_channels, (set, frozenset)):
        jpeg_channels = tuple(sorted(jpeg_channels))
    # These three are read out of `if` tests inside the constructors; when the tests were moved or rewritten the
    # recorded values are used and the lapse is noted (the exhaustive `get-encoder` correspondence still ties
    # `Enc.select` to the code) - same policy as for the translated expressions
    if not (isinstance(cseg_types, (tuple, list)) and all(isinstance(t, str) for t in cseg_types)):
        LAPSES.append("CompressedSegmentationEncoder.__init__: accepted data types not located, recorded values used")
        cseg_types = ("uint32", "uint64")
    if not (isinstance(jpeg_type, str) and isinstance(jpeg_channels, (tuple, list))
            and all(isinstance(c, int) and c >= 0 for c in jpeg_channels)):
        LAPSES.append("JpegChunkEncoder.__init__: accepted data type / channel counts not located, recorded values used")
        jpeg_type, jpeg_channels = "uint8", (1, 3)
    defs["csegDataTypes"] = "def csegDataTypes : List String := " + lean_list(lean_str(t) for t in cseg_types)
    defs["jpegDataType"] = f"def jpegDataType : String := {lean_str(jpeg_type)}"
    defs["jpegChannels"] = "def jpegChannels : List Nat := " + lean_list(map(str, jpeg_channels))
    # --- file_accessor.py ---------------------------------------------------------------
    acc = _module("accessor.py")
    fa = _module("file_accessor.py")
    for mod, py, ln in ((acc, "_CHUNK_PATTERN_FLAT", "chunkPatternFlat"),
                        (fa, "_CHUNK_PATTERN_SUBDIR", "chunkPatternSubdir")):
        v = _const_eval(_assign_value(mod, py))
        if not isinstance(v, str):
            raise TableError(py + " is not a string")
        defs[ln] = f"def {ln} : String := {lean_str(v)}"
    v = _const_eval(_assign_value(fa, "NO_COMPRESS_MIME_TYPES"))
    if not isinstance(v, (set, frozenset, tuple, list)):
        raise TableError("NO_COMPRESS_MIME_TYPES is not a literal collection")
    defs["noCompressMimeTypes"] = ("def noCompressMimeTypes : List String := "
                                   + lean_list(lean_str(s) for s in sorted(v)))
    # --- http_accessor.py: which pattern constant builds the chunk URL ---------------------
    ha = _module("http_accessor.py")
    name = None
    for node in ast.walk(_func(ha, "chunk_relative_url")):
        if (isinstance(node, ast.Call) and isinstance(node.func, ast.Attribute)
                and node.func.attr == "format" and isinstance(node.func.value, ast.Name)):
            name = node.func.value.id
    if name is None:
        raise TableError("HttpAccessor.chunk_relative_url: pattern.format(...) call not found")
    defs["httpChunkPatternName"] = f"def httpChunkPatternName : String := {lean_str(name)}"
    # --- scripts/slices_to_precomputed.py ------------------------------------------------
    sl = _module("scripts/slices_to_precomputed.py")
    perm = _const_eval(_assign_value(sl, "AXIS_PERMUTATION_FOR_RAS"))
    inv = _const_eval(_assign_value(sl, "AXIS_INVERSION_FOR_RAS"))
    if not (isinstance(perm, dict) and isinstance(inv, dict)):
        raise TableError("orientation dictionaries not found")
    defs["axisPermutationForRas"] = (
        "def axisPermutationForRas : List (Char × Nat) := "
        + lean_list(f"('{k}', {v})" for k, v in perm.items()))
    defs["axisInversionForRas"] = (
        "def axisInversionForRas : List (Char × Int) := "
        + lean_list(f"('{k}', {v})" for k, v in inv.items()))
    codes = _const_eval(_assign_value(sl, "POSSIBLE_AXIS_ORIENTATIONS"))
    if not (isinstance(codes, list) and all(isinstance(c, str) for c in codes)):
        raise TableError("POSSIBLE_AXIS_ORIENTATIONS is not a list of strings")
    defs["possibleAxisOrientations"] = ("def possibleAxisOrientations : List (List Char) := "
                                        + lean_list("[" + ", ".join(f"'{ch}'" for ch in c) + "]" for c in codes))
    return defs


def render(defs):
    head = ("/- GENERATED by harness/ngv/tables.py from /repo's current source on every run.\n"
            "   Do not edit: the file is rewritten before each `lake build`. -/\n"
            "namespace NgVerif.Generated\n\n")
    return head + "\n\n".join(defs.values()) + "\n\nend NgVerif.Generated\n"


def regenerate():
    """Rewrite Tables.lean if its content changed. Returns (changed, text)."""
    text = render(extract())
    target = os.path.join(paths.LEAN, "NgVerif", "Generated", "Tables.lean")
    old = None
    if os.path.exists(target):
        with open(target) as f:
            old = f.read()
    if old != text:
        os.makedirs(os.path.dirname(target), exist_ok=True)
        tmp = target + ".tmp%d" % os.getpid()
        with open(tmp, "w") as f:
            f.write(text)
        os.replace(tmp, target)
        return True, text
    return False, text
