"""Generators for compressed_segmentation chunks (shared by C02, C10, C03, C13)."""
import numpy as np


def gen_chunk(rng, big=False):
    """Random (dtype, block_size, chunk array) hitting every bit width and LUT-sharing pattern."""
    dt = rng.choice(["uint32", "uint64"])
    C = rng.choice([1, 1, 2, 3])
    bs = [rng.choice([1, 2, 3, 4, 8]) for _ in range(3)]
    if rng.random() < 0.3:
        bs = [bs[0]] * 3
    shp = []
    for b in reversed(bs):  # (z, y, x) extents relative to (bz, by, bx)
        shp.append(rng.choice([1, b, b, 2 * b, b + 1, max(1, b - 1), rng.randrange(1, 13)]))
    if big and rng.random() < 0.3:
        bs = [8, 8, 8]
        shp = [rng.choice([8, 9, 16]), 8, rng.choice([8, 12])]
    shape = (C,) + tuple(shp)
    n = int(np.prod(shape))
    top = 2**32 if dt == "uint32" else 2**64
    mode = rng.choice(["const", "two", "few", "16", "256", "many", "arange", "shared-bg", "highbits", "blocky", "bytealigned"])
    nrng = np.random.default_rng(rng.getrandbits(32))
    if mode == "const":
        a = np.full(shape, rng.randrange(top), dtype=dt)
    elif mode == "arange":
        a = (np.arange(n, dtype=np.uint64) + rng.randrange(0, 5)).astype(dt).reshape(shape)
    elif mode == "shared-bg":
        a = np.zeros(shape, dtype=dt)
        k = max(1, n // 7)
        idx = nrng.integers(0, n, size=k)
        a.reshape(-1)[idx] = nrng.integers(1, 4, size=k).astype(dt)
    elif mode == "bytealigned":
        # per-block label sets from a pool of labels whose little-endian bytes are mostly zero: the byte image of
        # one block's table then occurs inside another block's table at offsets that are NOT word aligned
        pool = [1, 2, 3, 5, 0x100, 0x200, 0x300, 0x400, 0x10000, 0x20000, 0x1000000, 0x1000100]
        if dt == "uint64":
            pool += [2**32, 2**32 + 256, 2**40, 3 * 2**40, 2**56, 70000]
        a = np.zeros(shape, dtype=dt)
        for c in range(C):
            for z0 in range(0, shape[1], bs[2]):
                for y0 in range(0, shape[2], bs[1]):
                    for x0 in range(0, shape[3], bs[0]):
                        labs = rng.sample(pool, rng.choice([1, 1, 2, 2, 3]))
                        sub = a[c, z0:z0 + bs[2], y0:y0 + bs[1], x0:x0 + bs[0]]
                        sub[...] = np.array(labs, dtype=dt)[nrng.integers(0, len(labs), size=sub.shape)]
    elif mode == "blocky":
        a = np.zeros(shape, dtype=dt)
        for c in range(C):
            for z in range(shape[1]):
                for y in range(shape[2]):
                    for x in range(shape[3]):
                        a[c, z, y, x] = (z // bs[2]) % 2 * 5 + (x // bs[0]) % 2 + (7 if (x + y) % 5 == 0 else 0)
    else:
        k = {"two": 2, "few": rng.choice([3, 4]), "16": rng.randrange(5, 17), "256": rng.randrange(17, 257),
             "many": rng.randrange(257, 2000), "highbits": rng.choice([2, 5, 40])}[mode]
        if mode == "highbits" and dt == "uint64":
            labels = np.array([rng.randrange(2**32, 2**64) for _ in range(k)], dtype=np.uint64)
            labels[0] = 2**64 - 1
            if k > 1:
                labels[1] = 2**53 + 1
        else:
            labels = np.array([rng.randrange(top) for _ in range(k)], dtype=np.uint64)
        a = labels[nrng.integers(0, k, size=n)].astype(dt).reshape(shape)
    return dt, bs, a, mode


def bit_widths(dt, bs, a):
    """bit widths the encoder must use per block (for the evidence histogram)."""
    out = []
    C, Z, Y, X = a.shape
    for c in range(C):
        for z in range(0, Z, bs[2]):
            for y in range(0, Y, bs[1]):
                for x in range(0, X, bs[0]):
                    k = len(np.unique(a[c, z:z + bs[2], y:y + bs[1], x:x + bs[0]]))
                    for b in (0, 1, 2, 4, 8, 16, 32):
                        if 2**b >= k:
                            out.append(b)
                            break
    return out
